#!/usr/bin/env python3
"""confirm_seed.py <worktree> <variant dir> <cargo package> [--features F]
Confirms a seeded change in its scratch worktree: (1) existing tests of the
package pass with the change, (2) the demonstration fails with the change,
(3) the demonstration passes without it. Prints a JSON summary."""
import json, os, re, subprocess, sys
wt, vdir, pkg = sys.argv[1:4]
feat = sys.argv[5] if len(sys.argv) > 5 and sys.argv[4] == "--features" else None
env = dict(os.environ, CARGO_NET_OFFLINE="true", CARGO_TARGET_DIR=os.path.join(wt, "target"))
def sh(cmd, **kw):
    return subprocess.run(cmd, cwd=wt, env=env, capture_output=True, text=True, **kw)
def cargo_test(extra):
    cmd = ["cargo", "test", "-p", pkg, "--offline"] + (["--features", feat] if feat else []) + extra
    r = sh(cmd)
    out = r.stdout + r.stderr
    res = re.findall(r"test result: (\w+)\. (\d+) passed; (\d+) failed", out)
    return r.returncode, res, out
sh(["git", "checkout", "--", "."]); sh(["git", "clean", "-fd", "-e", "out", "-e", "target"])
patch = os.path.join(vdir, "patch.diff"); demo = os.path.join(vdir, "demo.diff")
names = re.findall(r"^\+\s*(?:async )?fn (\w+)\(", open(demo).read(), flags=re.M)
summary = {"worktree": wt, "variant": vdir, "package": pkg, "demo_tests": names}
assert sh(["git", "apply", patch]).returncode == 0, "patch does not apply"
rc, res, out = cargo_test([])
summary["existing_tests_with_change"] = {"exit": rc, "results": res, "failed_names": re.findall(r"^test (\S+) \.\.\. FAILED", out, flags=re.M)}
assert sh(["git", "apply", demo]).returncode == 0, "demo does not apply"
def run_demo():
    tot_fail = 0; tot_pass = 0; rcs = []
    for n in names:
        rc, res, out = cargo_test([n])
        rcs.append(rc)
        tot_pass += sum(int(p) for _, p, f in res); tot_fail += sum(int(f) for _, p, f in res)
    return {"exits": rcs, "passed": tot_pass, "failed": tot_fail}
summary["demo_with_change"] = run_demo()
assert sh(["git", "apply", "-R", patch]).returncode == 0
summary["demo_without_change"] = run_demo()
sh(["git", "checkout", "--", "."]); sh(["git", "clean", "-fd", "-e", "out", "-e", "target"])
ok = (summary["demo_with_change"]["failed"] > 0 and summary["demo_without_change"]["failed"] == 0
      and summary["demo_without_change"]["passed"] > 0)
summary["confirmed"] = ok
print(json.dumps(summary, indent=1))

#!/usr/bin/env python3
"""Regenerates /verif/MANIFEST.json from lib/registry.py (claimed checks) and the
not-applicable table below. Run after every registry change."""
import json, os, sys
VERIF = os.path.dirname(os.path.dirname(os.path.abspath(__file__)))
sys.path.insert(0, os.path.join(VERIF, "lib"))
import registry

NA = {
 "C01": "block executor: FuelVM interpreter loop + sha256 + secp256k1 + storage maps (HashMap/BTreeMap) on every path; no separable kernel carries the statement (DESIGN §5 C01, §2)",
 "C02": "same executor path as C01; the unspent set lives in storage maps that CBMC cannot execute here (measured: two BTreeMap inserts exhaust 62 GB)",
 "C03": "limit and mint bookkeeping is interleaved with VM execution and sha256 transaction ids; the comparators alone do not decide the statement",
 "C04": "needs generated FuelVM programs executed by the interpreter (trip count = program)",
 "C05": "process_da iterates relayer events into storage maps and a sha256 Merkle calculator and runs forced transactions in the VM",
 "C06": "ProcessedTransactions is a storage table behind std maps; ids are sha256 digests",
 "C07": "wasmtime (JIT + FFI) cannot be compiled or executed by Kani",
 "C09": "every accepting path builds a StorageTransaction (HashMap of BTreeMaps + postcard) before the height decision is observable; std maps are out of reach (measured)",
 "C10": "InMemoryTransaction is a HashMap<u32, BTreeMap<..>>; every operation named in the property goes through it (std maps out of reach, measured)",
 "C12": "RocksDB C++ FFI and on-disk history; no Rust kernel to encode",
 "C13": "sha256 binary Merkle tree over storage maps; a stand-in hash would decide a different statement (stretch goal not built)",
 "C14": "256-level sparse Merkle tree with one sha256 per level per update",
 "C16": "txpool: Pool/GraphStorage (petgraph StableGraph + HashMaps), BasicCollisionManager (4 HashMaps); no map-free kernel",
 "C17": "txpool dependency graph is petgraph + HashMaps (out of reach, measured for std maps)",
 "C18": "RatioTipGasSelection is a BTreeMap keyed by Ratio<u64> (gcd loops) over the same pool maps",
 "C19": "pool admission walks HashMap-based collision and graph storages and an LRU of spent inputs",
 "C20": "pool worker: tokio channels + the same HashMap-based pool state",
 "C21": "squeeze-out reporting is emitted from inside the HashMap-based pool removal paths",
 "C23": "two HashMaps keyed by tx id plus tokio::time::Instant::now()",
 "C24": "MainTask::run is a tokio select! over timers, channels and nine async ports; Kani has no reactor or timers",
 "C25": "the deciding logic is Lua executed inside Redis plus network I/O; there is no Rust function whose symbolic execution would decide it",
 "C26": "tokio::spawn / mpsc / buffered streams / select! pipeline; Kani does not model tasks or channels across tasks",
 "C31": "PeerManager keeps HashMap/HashSet tables of PeerId and every method starts with a lookup (std maps out of reach, measured)",
 "C32": "quick_cache sharded hash table + libp2p async codec over postcard/serde of whole blocks",
 "C33": "registry tables are storage maps, CacheEvictor is a HashSet loop, compression is serde over whole transactions",
 "C39": "snapshot files, parquet/JSON encoders, databases and tokio tasks end to end",
 "C40": "file I/O + database + tokio cancellation; no loop-free kernel",
 "C41": "ServiceRunner::new calls tokio::spawn and the property is about panics and racing tasks; Kani models neither unwinding nor threads",
 "C44": "secp256k1 recovery and ed25519 verification (FFI / heavy crypto), HashMap<Tai64,_>, wall clock",
 "C45": "executor + databases + tokio_rayon end to end",
}
# properties whose check is planned in DESIGN.md but not built yet
PENDING = {
 "C37": "measured out of reach: the real select_coins_to_spend was harnessed (3 coins, max 2, symbolic amounts/target/exclusion mask; is_excluded and max_dust_count cut, a Result-free index iterator to avoid StorageError destructors): symbolic execution took ~20 min and the SAT instance exhausted 24 GB; the non-indexed algorithms additionally need database views (DESIGN §5 C37)",
 "C38": "measured: the real query_pagination inside async_graphql::connection::query (collection <= 3, first <= 2) was still in symbolic execution after 20 min in the design probe (drop glue and error construction in async-graphql/anyhow); retried with -Z restrict-vtable, Backtrace/fmt stubs and per-loop unwind limits on std::backtrace's destructors: the smallest instances (2 entries, page 1; and the four rejected argument combinations alone) were still in symbolic execution after 18 min each - anyhow/async-graphql errors are destroyed through a function-pointer table that CBMC resolves by signature over the whole fuel-core crate graph (DESIGN §5 C38)",
 "C43": "measured out of reach: the conversion functions build an anyhow::Error eagerly at every `ok_or(...)` and drop it on the success path; anyhow dispatches the destructor through its own function-pointer table, which CBMC resolves to every function of that signature in a dependency graph that includes aws-sdk-s3/tonic/prost. The smallest harness (one header, symbolic fields) stayed in symbolic execution for 15-20 min with and without per-loop unwind limits on std::backtrace's destructors; whole blocks additionally need sha256 (Block::new) and storage maps",
}

def main():
    hooks_file = os.path.join(VERIF, "hooks.json")
    hooks = json.load(open(hooks_file)) if os.path.exists(hooks_file) else {"source_commits": []}
    checks = []
    for pid in sorted(registry.PROPS):
        sp = registry.PROPS[pid]
        c = {
            "property_id": pid,
            "quick_cmd": f"./check {pid} --tier quick",
            "thorough_cmd": f"./check {pid} --tier thorough",
            "evidence_file": f"/verif/evidence/{pid}.json",
            "replay_cmd_template": "./check --replay {path}",
            "engine": "kani-cbmc",
            "level_claimed": {
                "category": sp.get("level", "model_checking"),
                "text": sp["claim"] if "claim" in sp else sp.get("explanation", ""),
                "design_ref": f"DESIGN.md §5 {pid}",
            },
            "level_note": "Bounded: " + sp.get("bounds", "") + ". Outside the claim: " + sp.get("outside", "") +
                          ". Trusted: Kani 0.68/CBMC 6.11, the stubs listed in the evidence, the harness reference models.",
            "technique": sp.get("technique", "bounded model checking of the real compiled Rust code: Kani (MIR->GOTO) + CBMC/CaDiCaL SAT over symbolic inputs, unwinding assertions on, counterexamples replayed natively"),
        }
        checks.append(c)
    na = []
    for pid in sorted(set(NA) | set(PENDING)):
        if pid in registry.PROPS:
            continue
        na.append({"property_id": pid, "reason": NA.get(pid) or PENDING[pid]})
    man = {
        "version": 1,
        "setup_cmd": "./check --setup",
        "hooks": {
            "guard": "cargo feature `fuellabs-verif` (declared, empty, in each hooked crate's [features])",
            "enable": "harness crates under /verif/harness depend on the /repo crates by path with features = [\"fuellabs-verif\"]; `cargo kani` / `cargo build` then compile /repo's working tree with the hooks on",
            "baseline_off_cmd": "cd /repo && cargo nextest run --workspace --no-fail-fast --tool-config-file pb:/w/lib/nextest.toml --profile pb --test-threads 8 --offline",
            "source_commits": hooks.get("source_commits", []),
            "add_only": True,
        },
        "engines": [
            {"name": "kani-cbmc", "path": "/verif/lib/driver.py", "serves_properties": sorted(registry.PROPS),
             "kind_free_text": "Kani 0.68 compiles /repo's crates + external harness crates (/verif/harness/*) to GOTO; CBMC 6.11 (CaDiCaL) decides each harness; counterexamples are replayed natively through the same harness body"},
        ],
        "checks": checks,
        "not_applicable": na,
        "notes": "Exit 0 = held within the stated bounds (or only KNOWN-FINDING lines), 1 = reproduced violation (VIOLATION line), 2 = inconclusive (build failure against a changed API, timeout, OOM, vacuous harness, unreproduced counterexample). hooks.source_commits ca707db91d/86766f6b1b are a forwarder added for the C38 attempt and its revert (net no change). Fix commits in /repo: 42af77a330 (C35), 7ecdc292e6 (C27), acd84091b3 (C11); see known_findings.json and DESIGN.md §6.",
    }
    json.dump(man, open(os.path.join(VERIF, "MANIFEST.json"), "w"), indent=1)
    print(f"MANIFEST.json: {len(checks)} checks, {len(na)} not applicable")

main()

#!/usr/bin/env python3
"""Driver for the solver-based checks (see /verif/DESIGN.md §1.3).

For one property it
  1. compiles the harness crate against /repo's CURRENT working tree with the
     Kani compiler (hooks on through the cargo feature `fuellabs-verif`),
  2. lets CBMC decide every harness of the tier (all assertions, panics,
     overflows, bounds and unwinding assertions, for every value of the
     symbolic inputs), each in its own process with a memory and time cap,
  3. requires the vacuity witness (`VREACH` cover) of every harness to be
     SATISFIED,
  4. on a failed harness asks Kani for the concrete values, writes them to
     /verif/replays/<id>/<harness>.json and replays them natively (ordinary
     rustc, dev and release profile) through the same harness body,
  5. reports VIOLATION only for a natively reproduced counterexample that is
     not listed in /verif/known_findings.json,
  6. writes /verif/evidence/<id>.json.

Exit codes: 0 held within the bounds / only known findings; 1 reproduced
violation; 2 inconclusive (build failure, timeout, out of memory, unreachable
witness, unwinding assertion failed, counterexample not reproduced).
"""
import concurrent.futures as cf
import json
import os
import re
import resource
import shutil
import signal
import subprocess
import sys
import time

VERIF = os.path.dirname(os.path.dirname(os.path.abspath(__file__)))
REPO = os.environ.get("VERIF_REPO", "/repo")
CACHE = os.path.join(VERIF, ".cache")
NATIVE_TOOLCHAIN = "1.93.0"

sys.path.insert(0, os.path.join(VERIF, "lib"))
import registry  # noqa: E402


def log(msg):
    print(msg, flush=True)


def prebuilt_rocksdb():
    """A librocksdb.a left by the repository's own build (saves ~10 min of C++
    compilation in the Kani and replay target dirs; Kani links nothing anyway)."""
    import glob
    for pat in ("/repo/target/debug/build/librocksdb-sys-*/out/librocksdb.a",
                "/repo/target/release/build/librocksdb-sys-*/out/librocksdb.a"):
        hits = sorted(glob.glob(pat), key=os.path.getmtime, reverse=True)
        if hits:
            return os.path.dirname(hits[0])
    return None


def base_env():
    env = dict(os.environ)
    env["CARGO_NET_OFFLINE"] = "true"
    env.pop("RUSTFLAGS", None)
    env.pop("CARGO_TARGET_DIR", None)
    d = prebuilt_rocksdb()
    if d and "ROCKSDB_LIB_DIR" not in env:
        env["ROCKSDB_LIB_DIR"] = d
        env["ROCKSDB_STATIC"] = "1"
    return env


def crate_dir(crate):
    return os.path.join(VERIF, "harness", crate)


def kani_target(crate):
    return os.path.join(CACHE, "kani", crate)


def native_target(crate):
    return os.path.join(CACHE, "native", crate)


def sync_lock(crate):
    """Harness crates resolve their dependencies from /repo's lock file."""
    src = os.path.join(REPO, "Cargo.lock")
    dst = os.path.join(crate_dir(crate), "Cargo.lock")
    shutil.copyfile(src, dst)


def run_proc(cmd, cwd, timeout, mem_gb=None, env=None):
    """Run cmd in its own process group with an address-space cap; returns
    (status, output, wall). status: int exit code | 'timeout'."""
    def pre():
        os.setsid()
        if mem_gb:
            lim = int(mem_gb * (1 << 30))
            resource.setrlimit(resource.RLIMIT_AS, (lim, lim))
    t0 = time.time()
    p = subprocess.Popen(cmd, cwd=cwd, env=env or base_env(), stdout=subprocess.PIPE,
                         stderr=subprocess.STDOUT, preexec_fn=pre, text=True, errors="replace")
    try:
        out, _ = p.communicate(timeout=timeout)
        status = p.returncode
    except subprocess.TimeoutExpired:
        try:
            os.killpg(p.pid, signal.SIGKILL)
        except ProcessLookupError:
            pass
        out, _ = p.communicate()
        status = "timeout"
    return status, out, time.time() - t0


def hpath(name):
    """Harness `cNN_xyz` lives in `cNN::proofs::cNN_xyz` of its crate."""
    return f"{name.split('_')[0]}::proofs::{name}"


def kani_cmd(crate, extra):
    cfg = registry.CRATES[crate]
    # -Z restrict-vtable: resolve `dyn` calls (including drop-in-place of boxed
    # trait objects) to the types that actually implement the trait; without it
    # CBMC considers every function of a compatible signature (measured: the
    # drop of one `Pin<Box<dyn Future>>` pulled in std::backtrace's destructors
    # and never finished).
    cmd = ["cargo", "kani", "--target-dir", kani_target(crate), "-Z", "stubbing", "-Z", "restrict-vtable"]
    cmd += cfg.get("kani_args", [])
    cmd += extra
    return cmd


def build_crate(crate, timeout=3600):
    sync_lock(crate)
    st, out, wall = run_proc(kani_cmd(crate, ["--only-codegen"]), crate_dir(crate), timeout)
    return st == 0, out, wall


RE_SUMMARY = re.compile(r"\*\* (\d+) of (\d+) failed(?: \((.*?)\))?")
RE_COVER = re.compile(r"\*\* (\d+) of (\d+) cover properties satisfied")
RE_CHECK = re.compile(r"^Check \d+: (.*)$")


def parse_kani(out):
    r = {"verdict": None, "checks_total": 0, "checks_failed": 0, "unreachable": 0,
         "undetermined": 0, "cover_total": 0, "cover_sat": 0, "failed": [],
         "solver_s": 0.0, "symex_s": 0.0, "queries": 0, "sat_vars": 0, "sat_clauses": 0,
         "verification_s": None, "functions": [], "prop_asserts": [], "stubs": [],
         "unwind_failed": False, "oom": False}
    if "VERIFICATION:- SUCCESSFUL" in out:
        r["verdict"] = "success"
    elif "VERIFICATION:- FAILED" in out:
        r["verdict"] = "failed"
    m = None
    for m in RE_SUMMARY.finditer(out):
        pass
    if m:
        r["checks_failed"], r["checks_total"] = int(m.group(1)), int(m.group(2))
        extra = m.group(3) or ""
        mu = re.search(r"(\d+) unreachable", extra)
        if mu:
            r["unreachable"] = int(mu.group(1))
        mu = re.search(r"(\d+) undetermined", extra)
        if mu:
            r["undetermined"] = int(mu.group(1))
    m = None
    for m in RE_COVER.finditer(out):
        pass
    if m:
        r["cover_sat"], r["cover_total"] = int(m.group(1)), int(m.group(2))
    # individual checks
    lines = out.splitlines()
    funcs = set()
    props = {}
    i = 0
    while i < len(lines):
        mc = RE_CHECK.match(lines[i])
        if mc:
            name = mc.group(1)
            status = desc = loc = ""
            j = i + 1
            while j < len(lines) and lines[j].startswith("\t"):
                s = lines[j].strip()
                if s.startswith("- Status:"):
                    status = s.split(":", 1)[1].strip()
                elif s.startswith("- Description:"):
                    desc = s.split(":", 1)[1].strip().strip('"')
                elif s.startswith("- Location:"):
                    loc = s.split(":", 1)[1].strip()
                j += 1
            fn = re.sub(r"\.[a-z_A-Z\-]+\.\d+$", "", name)
            if "fuel_" in fn:
                funcs.add(fn)
            if re.match(r"^C\d\d ", desc):
                props[desc] = status
            if status == "FAILURE":
                r["failed"].append({"check": name, "description": desc, "location": loc})
                if "unwinding assertion" in desc:
                    r["unwind_failed"] = True
            i = j
        else:
            i += 1
    r["functions"] = sorted(funcs)
    r["prop_asserts"] = [{"assertion": d, "status": s} for d, s in sorted(props.items())]
    for mm in re.finditer(r"Runtime decision procedure: ([0-9.e+-]+)s", out):
        r["solver_s"] += float(mm.group(1))
    for mm in re.finditer(r"Runtime Symex: ([0-9.e+-]+)s", out):
        r["symex_s"] += float(mm.group(1))
    r["queries"] = len(re.findall(r"^Solving with ", out, flags=re.M))
    for mm in re.finditer(r"^(\d+) variables, (\d+) clauses", out, flags=re.M):
        r["sat_vars"] = max(r["sat_vars"], int(mm.group(1)))
        r["sat_clauses"] = max(r["sat_clauses"], int(mm.group(2)))
    mm = re.search(r"Verification Time: ([0-9.e+-]+)s", out)
    if mm:
        r["verification_s"] = float(mm.group(1))
    r["stubs"] = sorted(set(s.strip() for s in re.findall(r"- Stub: (.*)", out)))
    if re.search(r"Status: ERROR|std::bad_alloc|out of memory|Out of memory|memory exhausted|run out of memory", out):
        r["oom"] = True
    return r


def parse_playback(out):
    """Returns list of {kind, description, values} from `--concrete-playback=print`."""
    res = []
    for block in re.findall(r"```\n(.*?)```", out, flags=re.S):
        mk = re.search(r"/// Check for `(\w+)`: \"(.*?)\"\n///", block, flags=re.S)
        kind, desc = (mk.group(1), " ".join(mk.group(2).split())) if mk else ("?", "?")
        vals = []
        body = block.split("let concrete_vals", 1)
        if len(body) < 2:
            continue
        for mv in re.finditer(r"^\s*vec!\[([0-9, ]*)\],?\s*$", body[1], flags=re.M):
            txt = mv.group(1).strip()
            vals.append([int(x) for x in txt.split(",") if x.strip()] if txt else [])
        res.append({"kind": kind, "description": desc, "values": vals})
    return res


def unwindset_args(crate, h):
    """Per-loop unwinding limits for destructor loops that are dead in the harness but that CBMC would otherwise unwind
    to the global bound on every path (e.g. the drop glue of `Vec<Transaction>` behind an enum variant the harness never
    builds). The loop names are discovered from the freshly compiled GOTO binary of the harness. Unwinding assertions
    stay on: if such a loop could run one iteration the harness FAILS instead of silently truncating."""
    pats = h.get("unwindset")
    if not pats:
        return [], []
    import glob
    name = h["name"]
    cands = [f for f in glob.glob(os.path.join(kani_target(crate), "kani", "*", "debug", "build", "*", "*", "out", f"*{len(name)}{name}.out"))
             if not f.endswith(".symtab.out")]
    if not cands:
        return [], []
    f = max(cands, key=os.path.getmtime)
    try:
        out = subprocess.run(["cbmc", "--show-loops", f], capture_output=True, text=True, timeout=600).stdout
    except Exception:
        return [], []
    loops = re.findall(r"^Loop (\S+):$", out, flags=re.M)
    chosen = []
    for lp in loops:
        for rx, bound in pats:
            if re.search(rx, lp):
                chosen.append(f"{lp}:{bound}")
                break
    if not chosen:
        return [], []
    return ["-Z", "unstable-options", "--cbmc-args", "--unwindset", ",".join(chosen)], chosen


def run_harness(crate, h, tier, logdir):
    name = h["name"]
    timeout = h.get("timeout", {}).get(tier, 900 if tier == "quick" else 3600)
    mem = h.get("mem_gb", 12)
    us_args, us_loops = unwindset_args(crate, h)
    cmd = kani_cmd(crate, ["--harness", hpath(name), "--exact"] + h.get("kani_args", []) + us_args)
    st, out, wall = run_proc(cmd, crate_dir(crate), timeout, mem_gb=mem)
    with open(os.path.join(logdir, name + ".log"), "w") as f:
        f.write(out)
    r = parse_kani(out)
    r.update({"name": name, "wall_s": round(wall, 2), "exit": st, "timeout_s": timeout, "mem_cap_gb": mem,
              "unwindset": [u[-90:] for u in us_loops]})
    if st == "timeout":
        r["status"] = "timeout"
    elif r["verdict"] == "success" and st == 0:
        if r["cover_total"] >= 1 and r["cover_sat"] == r["cover_total"]:
            r["status"] = "pass"
        else:
            r["status"] = "vacuous"
    elif r["verdict"] == "failed":
        if r["oom"] and not [f for f in r["failed"]]:
            r["status"] = "oom"
        elif r["unwind_failed"] and all("unwinding assertion" in f["description"] for f in r["failed"]):
            r["status"] = "unwind"
        elif not r["failed"]:
            r["status"] = "error"
        else:
            r["status"] = "failed"
    else:
        r["status"] = "oom" if r["oom"] else "error"
    return r


def build_native(crate, profile):
    sync_lock(crate)
    env = base_env()
    env["RUSTUP_TOOLCHAIN"] = NATIVE_TOOLCHAIN
    cmd = ["cargo", "build", "--offline", "--bin", "replay", "--target-dir", native_target(crate)]
    if profile == "release":
        cmd.append("--release")
    st, out, wall = run_proc(cmd, crate_dir(crate), 3600, env=env)
    exe = os.path.join(native_target(crate), "release" if profile == "release" else "debug", "replay")
    return st == 0 and os.path.exists(exe), exe, out


def native_replay(crate, harness, values_path, profiles=("dev", "release")):
    """Feeds the recorded values into the same harness body compiled natively.
    Returns dict profile -> {outcome, output}. outcome: reproduced | completed | desync | error"""
    res = {}
    for prof in profiles:
        ok, exe, out = build_native(crate, prof)
        if not ok:
            res[prof] = {"outcome": "error", "output": out[-3000:]}
            continue
        st, out, _ = run_proc([exe, harness, values_path], crate_dir(crate), 600)
        if st == 101 or (isinstance(st, int) and st < 0) or st == 134:
            outcome = "reproduced"
        elif st == 0:
            outcome = "completed"
        elif st == 3:
            outcome = "desync"
        else:
            outcome = "error"
        res[prof] = {"outcome": outcome, "exit": st, "output": out[-3000:]}
    return res


def kani_replay(crate, h, values, timeout, mem_gb):
    """Replay inside the model checker: compile the recorded values into the harness crate (feature `kreplay`) and let
    CBMC execute exactly that run of the real code, with the same stubs. Used where a native replay is impossible
    (thread schedules). Returns {outcome, output}."""
    vfile = os.path.join(crate_dir(crate), "src", "kreplay_values.in")
    body = "&[" + ", ".join("&[" + ", ".join(f"{b}u8" for b in v) + "]" for v in values) + "]\n"
    open(vfile, "w").write(body)
    try:
        cmd = kani_cmd(crate, ["--features", "kreplay", "--harness", hpath(h["name"]), "--exact"] + h.get("kani_args", []))
        st, out, wall = run_proc(cmd, crate_dir(crate), timeout, mem_gb=mem_gb)
    finally:
        open(vfile, "w").write("&[]\n")
    r = parse_kani(out)
    prop_failed = [f for f in r["failed"] if re.match(r"^C\d\d ", f["description"])]
    if r["verdict"] == "failed" and prop_failed:
        outcome = "reproduced"
    elif r["verdict"] == "success":
        outcome = "completed"
    else:
        outcome = "error"
    return {"outcome": outcome, "exit": st, "failed": [f["description"] for f in r["failed"]][:6], "output": out[-2500:]}


def load_known():
    p = os.path.join(VERIF, "known_findings.json")
    if not os.path.exists(p):
        return []
    return json.load(open(p)).get("findings", [])


def known_match(pid, hname, failed, values):
    """A failure is a known finding only if EVERY failed check of the harness
    is covered by a listed (status == 'known') entry for this property+harness."""
    ents = [e for e in load_known() if e.get("status") == "known" and e.get("property") == pid
            and e.get("harness") == hname]
    if not ents or not failed:
        return None
    used = []
    for f in failed:
        hit = None
        for e in ents:
            if re.search(e["check_regex"], f["description"] + " @ " + f["location"]):
                hit = e
                break
        if not hit:
            return None
        used.append(hit)
    return used


def do_replay_file(path):
    rp = json.load(open(path))
    vals_path = path + ".values"
    json.dump(rp["values"], open(vals_path, "w"))
    spec = None
    for sp in registry.PROPS.values():
        for h in sp["harnesses"]:
            if h["name"] == rp["harness"] and sp["crate"] == rp["crate"]:
                spec = h
    if spec and spec.get("replay") == "kani":
        sync_lock(rp["crate"])
        res = {"kani-concrete": kani_replay(rp["crate"], spec, rp["values"], 3600, 32)}
    else:
        res = native_replay(rp["crate"], rp["harness"], vals_path)
    for prof, r in res.items():
        log(f"[replay {prof}] {r['outcome']}")
        log(r["output"][-1500:])
    return 1 if any(r["outcome"] == "reproduced" for r in res.values()) else 0


def check_property(pid, tier, jobs):
    t0 = time.time()
    seed = int(os.environ.get("VERIF_SEED", "0") or 0)
    spec = registry.PROPS[pid]
    crate = spec["crate"]
    logdir = os.path.join(CACHE, "logs", pid)
    os.makedirs(logdir, exist_ok=True)
    os.makedirs(os.path.join(VERIF, "evidence"), exist_ok=True)
    harnesses = [h for h in spec["harnesses"] if tier in h.get("tiers", ["quick", "thorough"])]
    head = subprocess.run(["git", "-C", REPO, "rev-parse", "HEAD"], capture_output=True, text=True).stdout.strip()
    dirty = subprocess.run(["git", "-C", REPO, "status", "--porcelain", "--untracked-files=no"],
                           capture_output=True, text=True).stdout.strip()
    log(f"[{pid}] tier={tier} crate={crate} harnesses={len(harnesses)} repo={head[:10]}{'+dirty' if dirty else ''}")

    ok, bout, bwall = build_crate(crate)
    with open(os.path.join(logdir, "_build.log"), "w") as f:
        f.write(bout)
    results = []
    inconclusive = []
    violations = []
    known_lines = []
    if not ok:
        log(f"[{pid}] INCONCLUSIVE: the harness crate does not compile against the current tree ({bwall:.0f}s); see {logdir}/_build.log")
        log("\n".join(bout.splitlines()[-25:]))
        inconclusive.append({"harness": "*", "why": "build_failed"})
    else:
        log(f"[{pid}] built with the Kani compiler from {REPO} in {bwall:.0f}s")
        with cf.ThreadPoolExecutor(max_workers=jobs) as ex:
            futs = {ex.submit(run_harness, crate, h, tier, logdir): h for h in harnesses}
            for fut in cf.as_completed(futs):
                h = futs[fut]
                r = fut.result()
                r["decl"] = {k: h[k] for k in ("functions", "bound", "cuts") if k in h}
                results.append(r)
                log(f"[{pid}]   {r['name']}: {r['status']} checks={r['checks_total']} failed={r['checks_failed']} "
                    f"cover={r['cover_sat']}/{r['cover_total']} solver={r['solver_s']:.1f}s wall={r['wall_s']:.0f}s")
        results.sort(key=lambda r: r["name"])
        for r in results:
            if r["status"] == "pass":
                continue
            if r["status"] != "failed":
                inconclusive.append({"harness": r["name"], "why": r["status"]})
                continue
            # counterexample: get concrete values and replay natively
            h = [x for x in harnesses if x["name"] == r["name"]][0]
            cmd = kani_cmd(crate, ["--harness", hpath(r["name"]), "--exact", "-Z", "concrete-playback",
                                   "--concrete-playback=print"] + h.get("kani_args", []) + unwindset_args(crate, h)[0])
            # building the counterexample trace needs more memory than the verdict
            st, out, wall = run_proc(cmd, crate_dir(crate), r["timeout_s"] * 2, mem_gb=max(32, 2 * r["mem_cap_gb"]))
            with open(os.path.join(logdir, r["name"] + ".playback.log"), "w") as f:
                f.write(out)
            pbs = [p for p in parse_playback(out) if p["kind"] != "cover"]
            rdir = os.path.join(VERIF, "replays", pid)
            os.makedirs(rdir, exist_ok=True)
            rpath = os.path.join(rdir, r["name"] + ".json")
            reproduced = None
            attempts = []
            for pb in pbs[:4]:
                vals_path = os.path.join(logdir, r["name"] + ".values.json")
                json.dump(pb["values"], open(vals_path, "w"))
                if h.get("replay") == "kani":
                    nat = {"kani-concrete": kani_replay(crate, h, pb["values"], r["timeout_s"], max(32, 2 * r["mem_cap_gb"]))}
                else:
                    nat = native_replay(crate, r["name"], vals_path)
                attempts.append({"check": pb["description"], "values": pb["values"], "native": nat})
                if any(x["outcome"] == "reproduced" for x in nat.values()):
                    reproduced = attempts[-1]
                    break
            rec = {"property": pid, "crate": crate, "harness": r["name"], "tier": tier,
                   "repo_head": head, "repo_dirty": bool(dirty),
                   "failed_checks": r["failed"],
                   "values": (reproduced or (attempts[0] if attempts else {"values": []}))["values"],
                   "reproduced": bool(reproduced), "attempts": attempts,
                   "replay_cmd": f"./check --replay {rpath}"}
            json.dump(rec, open(rpath, "w"), indent=1)
            r["replay"] = rpath
            r["reproduced"] = bool(reproduced)
            if not reproduced:
                inconclusive.append({"harness": r["name"], "why": "counterexample_not_reproduced_natively"})
                log(f"[{pid}]   {r['name']}: solver counterexample did NOT reproduce in the replay -> inconclusive ({rpath})")
                continue
            km = known_match(pid, r["name"], r["failed"], rec["values"])
            if km:
                for e in km:
                    line = f"KNOWN-FINDING: property={pid} {e['what']}"
                    if line not in known_lines:
                        known_lines.append(line)
                r["known_finding"] = True
            else:
                violations.append({"harness": r["name"], "replay": rpath,
                                   "failed": [f["description"] for f in r["failed"]][:6]})

    # ---- evidence
    passed = [r for r in results if r["status"] == "pass"]
    nontrivial = [r for r in passed if any(p["status"] == "SUCCESS" for p in r["prop_asserts"])]
    obligations = sum(r["checks_total"] for r in results)
    discharged = sum(r["checks_total"] - r["checks_failed"] - r.get("undetermined", 0) for r in passed)
    functions = sorted({f for r in results for f in r["functions"]}, key=lambda f: (not f.startswith("fuel_"), f))
    samples = []
    for r in results[:12]:
        samples.append({"harness": r["name"], "status": r["status"], "bound": r["decl"].get("bound"),
                        "functions_under_test": r["decl"].get("functions"),
                        "property_assertions": [p["assertion"] for p in r["prop_asserts"]][:12]})
    ev = {
        "property_id": pid, "tier": tier, "seed": seed, "level": spec.get("level", "model_checking"),
        "coverage": {
            "evaluations": len(results),
            "distinct_nontrivial": len(nontrivial),
            "rule": "one evaluation = one SAT-decided Kani/CBMC harness over the real compiled code (all values of the "
                    "symbolic inputs within the stated bound); it counts as distinct and non-trivial when it is a "
                    "different harness, verified successfully, its vacuity witness (cover at the end of the body) was "
                    "SATISFIED and at least one property assertion (description starting with the property id) was decided",
            "samples": samples,
            "obligations": obligations,
            "discharged": discharged,
            "checker_cmd": " ".join(kani_cmd(crate, ["--harness", "<name>", "--exact"])),
            "trusted_base": registry.TRUSTED_BASE + spec.get("trusted", []),
            "explanation": spec.get("explanation", ""),
            "exhaustive": False,
            "harnesses": [{k: r.get(k) for k in ("name", "status", "checks_total", "checks_failed", "unreachable",
                                                 "cover_sat", "cover_total", "queries", "sat_vars", "sat_clauses",
                                                 "solver_s", "symex_s", "verification_s", "wall_s", "timeout_s",
                                                 "mem_cap_gb", "stubs", "decl", "replay", "reproduced", "known_finding", "unwindset")}
                          for r in results],
            "functions_encoded": functions[:200],
            "functions_encoded_count": len(functions),
            "solver_time_s": round(sum(r["solver_s"] for r in results), 2),
            "symex_time_s": round(sum(r["symex_s"] for r in results), 2),
            "solver_queries": sum(r["queries"] for r in results),
            "build_s": round(bwall, 1),
            "repo_head": head, "repo_dirty": bool(dirty),
            "inconclusive": inconclusive,
            "known_findings_reported": known_lines,
            "bounds": spec.get("bounds", ""),
            "outside_claim": spec.get("outside", ""),
        },
        "assumptions": spec.get("assumptions", []),
        "wall_s": round(time.time() - t0, 2),
        "violations": len(violations),
    }
    json.dump(ev, open(os.path.join(VERIF, "evidence", pid + ".json"), "w"), indent=1)

    for line in known_lines:
        log(line)
    if violations:
        for v in violations:
            log(f"[{pid}] failed: {v['failed']}")
            log(f"VIOLATION property={pid} replay={v['replay']}")
        return 1
    if inconclusive:
        log(f"[{pid}] INCONCLUSIVE: {inconclusive}")
        return 2
    log(f"[{pid}] HELD within the stated bounds: {len(passed)}/{len(results)} harnesses, {discharged} checks discharged, "
        f"solver {ev['coverage']['solver_time_s']}s, wall {ev['wall_s']}s")
    return 0


def main(argv):
    if len(argv) >= 2 and argv[0] == "--replay":
        return do_replay_file(argv[1])
    if argv and argv[0] == "--setup":
        rc = 0
        crates = argv[1:] or sorted(registry.CRATES)
        for c in crates:
            ok, out, wall = build_crate(c)
            log(f"[setup] kani build {c}: {'ok' if ok else 'FAILED'} {wall:.0f}s")
            if not ok:
                log("\n".join(out.splitlines()[-30:]))
                rc = 1
        return rc
    tier = os.environ.get("VERIF_TIER", "quick")
    jobs = int(os.environ.get("VERIF_JOBS", "8"))
    ids = []
    i = 0
    while i < len(argv):
        if argv[i] == "--tier":
            tier = argv[i + 1]
            i += 2
        elif argv[i] == "--jobs":
            jobs = int(argv[i + 1])
            i += 2
        elif argv[i] == "--all":
            ids = sorted(registry.PROPS)
            i += 1
        else:
            ids.append(argv[i])
            i += 1
    if not ids:
        print(__doc__)
        return 2
    rc = 0
    for pid in ids:
        if pid not in registry.PROPS:
            log(f"unknown property {pid}")
            return 2
        r = check_property(pid, tier, jobs)
        rc = max(rc, r) if r != 1 and rc != 1 else 1
    return rc


if __name__ == "__main__":
    sys.exit(main(sys.argv[1:]))

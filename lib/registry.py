"""Which harnesses decide which property (the bounds are in the harness source;
the text here is copied into the evidence)."""

TRUSTED_BASE = [
    "Kani 0.68.0 (MIR -> GOTO) and CBMC 6.11.0 with CaDiCaL as decision procedure",
    "Kani's models of the Rust standard library and its abort-on-panic semantics",
    "vendored ethnum 1.5.2 with one function body changed (tfie), not on any checked path",
    "std::rt::thread_cleanup stubbed to a no-op; tracing compiled with max_level_off (log macros have empty bodies)",
    "the harness bodies and reference models under /verif/harness (written from the property statements)",
]

CRATES = {
    "sync": {},
}


def H(name, functions, bound, tiers=("quick", "thorough"), timeout=None, cuts=None, mem_gb=12, kani_args=None):
    d = {"name": name, "functions": functions, "bound": bound, "tiers": list(tiers), "mem_gb": mem_gb}
    if timeout:
        d["timeout"] = timeout
    if cuts:
        d["cuts"] = cuts
    if kani_args:
        d["kani_args"] = kani_args
    return d


PROPS = {}

PROPS["C28"] = {
    "crate": "sync",
    "level": "model_checking",
    "explanation": "Inductive step: from an arbitrary valid status (any history ends in one) one real operation with "
                   "arbitrary arguments is compared with a reference transition function written from the statement.",
    "bounds": "one operation from any status; all u32 heights; no loops (no unwinding bound needed)",
    "outside": "the SharedMutex/Notify plumbing around State in sync.rs/import.rs",
    "assumptions": ["every reachable status is Uninitialized, Committed(c) or Processing(s..=e) with s<=e "
                    "(established by the c28_new obligation and preserved by every step)"],
    "harnesses": [
        H("c28_new", ["fuel_core_sync::state::State::new", "State::process_range", "State::eq"], "all Option<u32> pairs"),
        H("c28_commit", ["fuel_core_sync::state::State::commit"], "any valid status x any u32 height"),
        H("c28_observe", ["fuel_core_sync::state::State::observe"], "any valid status x any u32 height"),
        H("c28_failed", ["fuel_core_sync::state::State::failed_to_process"], "any valid status x any u32 range"),
    ],
}

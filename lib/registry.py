"""Which harnesses decide which property (the bounds are in the harness source;
the text here is copied into the evidence)."""

TRUSTED_BASE = [
    "Kani 0.68.0 (MIR -> GOTO) and CBMC 6.11.0 with CaDiCaL as decision procedure",
    "Kani's models of the Rust standard library and its abort-on-panic semantics",
    "vendored ethnum 1.5.2 with one function body changed (tfie), not on any checked path",
    "std::rt::thread_cleanup stubbed to a no-op; tracing compiled with max_level_off (log macros have empty bodies)",
    "the harness bodies and reference models under /verif/harness (written from the property statements)",
]

CRATES = {
    "sync": {},
    "algo": {},
    "core": {},
    "producer": {},
    "relayer": {},
    "importer": {},
    "consensus": {},
    "txstatus": {},
    "services": {},
}


def H(name, functions, bound, tiers=("quick", "thorough"), timeout=None, cuts=None, mem_gb=12, kani_args=None, replay="native", unwindset=None):
    d = {"name": name, "functions": functions, "bound": bound, "tiers": list(tiers), "mem_gb": mem_gb, "replay": replay}
    if unwindset:
        d["unwindset"] = unwindset
    if timeout:
        d["timeout"] = timeout
    if cuts:
        d["cuts"] = cuts
    if kani_args:
        d["kani_args"] = kani_args
    return d


PROPS = {}

PROPS["C28"] = {
    "crate": "sync",
    "level": "model_checking",
    "explanation": "Inductive step: from an arbitrary valid status (any history ends in one) one real operation with "
                   "arbitrary arguments is compared with a reference transition function written from the statement.",
    "bounds": "one operation from any status; all u32 heights; no loops (no unwinding bound needed)",
    "outside": "the SharedMutex/Notify plumbing around State in sync.rs/import.rs",
    "assumptions": ["every reachable status is Uninitialized, Committed(c) or Processing(s..=e) with s<=e "
                    "(established by the c28_new obligation and preserved by every step)"],
    "harnesses": [
        H("c28_new", ["fuel_core_sync::state::State::new", "State::process_range", "State::eq"], "all Option<u32> pairs"),
        H("c28_commit", ["fuel_core_sync::state::State::commit"], "any valid status x any u32 height"),
        H("c28_observe", ["fuel_core_sync::state::State::observe"], "any valid status x any u32 height"),
        H("c28_failed", ["fuel_core_sync::state::State::failed_to_process"], "any valid status x any u32 range"),
    ],
}

_CPC = "fuel_gas_price_algorithm::utils::cumulative_percentage_change"
PROPS["C35"] = {
    "crate": "algo",
    "level": "model_checking",
    "explanation": "The real estimate function is executed symbolically: totality for every input; monotonicity in the "
                   "horizon and the compounding relation between consecutive horizons for every cell of the precomputed "
                   "table; the integer-compounding lower bound for sampled (percentage, horizon) instances over every "
                   "price below 2^K.",
    "bounds": "totality: all (u64 price, u32 heights, u64 percentage) and all AlgorithmV1 parameters; monotone: price < 2^16 "
              "(quick) / 2^20, 2^28 (thorough), percentage <= 24, horizon <= 24; table rows: all 24x25 cells; lower bound: "
              "price < 2^12..2^16 for the listed (percentage, horizon) instances",
    "outside": "the exp/ln branch (horizon or percentage >= 25) beyond totality: CBMC over-approximates transcendental "
               "functions; prices >= 2^52 violate the lower bound (known finding F5); UniversalGasPriceProvider/GraphQL plumbing",
    "assumptions": ["CBMC's bit-precise IEEE-754 model of f64 multiply/ceil/casts", "exp and ln are over-approximated by CBMC (any result)"],
    "harnesses": [
        H("c35_total", [_CPC], "all u64 price/percentage, all u32 heights"),
        H("c35_worst_case_total", ["fuel_gas_price_algorithm::v1::AlgorithmV1::worst_case", "AlgorithmUpdaterV1::algorithm", _CPC],
          "all u64 prices, u16 percentages, u32 heights"),
        H("c35_worst_case_components_fixed", ["fuel_gas_price_algorithm::v1::AlgorithmV1::worst_case", _CPC],
          "prices (1000, 777), all percentages <= 24, all horizons <= 24"),
        H("c35_worst_case_components_fixed2", ["fuel_gas_price_algorithm::v1::AlgorithmV1::worst_case", _CPC],
          "prices (3, 1000000007), all percentages <= 24, all horizons <= 24", tiers=("thorough",), timeout={"thorough": 3600}),
        H("c35_table_rows", [_CPC], "all 24x25 table cells, price 2^40"),
        H("c35_table_monotone_k16", [_CPC], "price < 2^16, pct <= 24, horizon < 24", tiers=("quick",), timeout={"quick": 900}),
        H("c35_table_monotone_k20", [_CPC], "price < 2^20, pct <= 24, horizon < 24", tiers=("thorough",), timeout={"thorough": 3600}),
        H("c35_table_monotone_k28", [_CPC], "price < 2^28, pct <= 24, horizon < 24", tiers=("thorough",), timeout={"thorough": 7200}),
        H("c35_lower_k12_p1_b1", [_CPC], "price < 2^12, 1 percent, 1 block"),
        H("c35_lower_k12_p13_b2", [_CPC], "price < 2^12, 13 percent, 2 blocks"),
        H("c35_lower_k12_p24_b8", [_CPC], "price < 2^12, 24 percent, 8 blocks"),
        H("c35_lower_k12_p7_b24", [_CPC], "price < 2^12, 7 percent, 24 blocks"),
        H("c35_lower_k16_p13_b2", [_CPC], "price < 2^16, 13 percent, 2 blocks", tiers=("thorough",)),
        H("c35_lower_k16_p24_b4", [_CPC], "price < 2^16, 24 percent, 4 blocks", tiers=("thorough",)),
        H("c35_lower_k16_p3_b12", [_CPC], "price < 2^16, 3 percent, 12 blocks", tiers=("thorough",)),
        H("c35_lower_k14_p24_b24", [_CPC], "price < 2^14, 24 percent, 24 blocks", tiers=("thorough",)),
        H("c35_lower_above_2p52", [_CPC], "2^52 <= price < 2^60, 13 percent, 2 blocks (region of known finding F5 only)"),
    ],
}

_HC = "fuel_core_sync::import::cache::Cache::"
_STEP_CUTS = ["BlockHeaderV1::recalculate_metadata -> no-op (sha256 of the header; the id is never read by the cache code)"]
_WHOLE_CUTS = ["Cache::collect_cache_data (BTreeMap range scan) -> environment model: exactly N cached headers at ascending in-range heights",
               "Cache::push_missing_chunks -> its contract (canonical partition of the gap), decided on the real function by c27_gap",
               "Vec::push -> records a pushed batch in a ghost log and forgets it; ordinary push for every other element type",
               "per-loop unwinding limit 0 (unwinding assertion on) for the destructors of Vec<Transaction>/Input/Witness/SealedBlock, dead here"]
_TXDROP = [(r"drop_glue.*(7fuel_tx|5block5Block)", 1)]
PROPS["C27"] = {
    "crate": "sync",
    "level": "model_checking",
    "explanation": "The real get_chunks is executed symbolically on the real types for every range of <= 4 heights, every batch "
                   "size and every placement of at most one cached header, with the batch vector replaced by a recording model and the gap "
                   "splitter by its contract; the two private functions that produce every batch are decided separately: the gap "
                   "splitter for all u32 arguments (exact canonical partition of the gap), and the accumulation step from every "
                   "shape of the current batch.",
    "bounds": "whole function: any u32 start, range length <= 4, batch size <= 4, no cached item or 1 cached header at any height of the "
              "range (2 cached items exhaust 44 GB, also with fixed positions); gap: all u32 cur <= height <= end, all batch sizes >= 1, at most 4 batches per gap (unwind 6); "
              "step: batch size 1..=3, current batch None / Headers / Blocks with 1 or 2 items, cached item a header or a block",
    "outside": "ranges with two or more cached items in the whole-function harness (the interplay of consecutive cached items is "
               "covered only by the step kernels; an ordering defect between a closed cached batch and the following gap needs two "
               "cached items and is NOT detected - seeded change C27-A), cached BLOCKS in the whole-function harness (their mixing with headers is covered by the step kernels), the BTreeMap "
               "behind collect_cache_data (replaced by its contract: ascending in-range items), ranges ending at u32::MAX, longer ranges",
    "assumptions": ["caller contract of push_missing_chunks as in get_chunks: cur <= height <= end",
                    "the current batch handed to handle_current_chunk ends at `height` (debug_assert in the code) and is None(0..0) when empty"],
    "harnesses": [
        H("c27_gap", [_HC + "push_missing_chunks"], "all u32, <= 4 batches per gap", timeout={"quick": 1200, "thorough": 3600}),
        H("c27_whole_r4_n0", [_HC + "get_chunks", _HC + "handle_current_chunk"], "range <= 4 heights, batch size <= 4, empty cache", cuts=_WHOLE_CUTS, unwindset=_TXDROP, mem_gb=16),
        H("c27_whole_r4_n1", [_HC + "get_chunks", _HC + "handle_current_chunk"], "range <= 4 heights, batch size <= 4, 1 cached header anywhere", cuts=_WHOLE_CUTS, unwindset=_TXDROP, mem_gb=16),
        H("c27_step_none_header", [_HC + "handle_current_chunk"], "current None(0..0), cached header", cuts=_STEP_CUTS),
        H("c27_step_none_block", [_HC + "handle_current_chunk"], "current None(0..0), cached block", cuts=_STEP_CUTS),
        H("c27_step_headers1_header", [_HC + "handle_current_chunk"], "current Headers(1), cached header, batch size 1..=3", cuts=_STEP_CUTS),
        H("c27_step_headers2_header", [_HC + "handle_current_chunk"], "current Headers(2), cached header, batch size 2..=3", cuts=_STEP_CUTS),
        H("c27_step_headers1_block", [_HC + "handle_current_chunk"], "current Headers(1), cached block", cuts=_STEP_CUTS),
        H("c27_step_headers2_block", [_HC + "handle_current_chunk"], "current Headers(2), cached block", cuts=_STEP_CUTS),
        H("c27_step_blocks1_header", [_HC + "handle_current_chunk"], "current Blocks(1), cached header", cuts=_STEP_CUTS),
        H("c27_step_blocks2_header", [_HC + "handle_current_chunk"], "current Blocks(2), cached header", cuts=_STEP_CUTS),
        H("c27_step_blocks1_block", [_HC + "handle_current_chunk"], "current Blocks(1), cached block", cuts=_STEP_CUTS),
        H("c27_step_blocks2_block", [_HC + "handle_current_chunk"], "current Blocks(2), cached block", cuts=_STEP_CUTS),
    ],
}

_SEL = "fuel_core_producer::block_producer::Producer::select_new_da_height"
_C30_CUTS = ["std::backtrace::Backtrace::capture -> Backtrace::disabled() (anyhow errors carry no backtrace)",
             "alloc::fmt::format -> empty string (error messages)"]
# a dropped anyhow::Error reaches std::backtrace's destructor loops through anyhow's own function-pointer table
_BTDROP = [(r"drop_glue.*3std9backtrace", 1)]
PROPS["C30"] = {
    "crate": "producer",
    "level": "model_checking",
    "explanation": "The real private async fn select_new_da_height is polled to completion against a relayer whose finalized "
                   "height, per-block costs, transaction counts and failures are all symbolic, and compared with the largest "
                   "fitting prefix computed from the statement.",
    "bounds": "finalized - previous <= N DA blocks (N = 2, 4 quick; 6 thorough; unwinding assertions on), all u64 costs, counts, "
              "gas limits and heights, all u16 transaction limits, relayer failures at any point",
    "outside": "the relayer adapter and storage behind the Relayer port; the rest of block production (executor)",
    "assumptions": ["the relayer answers for heights in (previous, finalized]; a query outside that interval is itself reported as a violation",
                    "every future awaited by the function is immediately ready (the mock relayer never suspends)"],
    "harnesses": [
        H("c30_select_n2", [_SEL], "<= 2 DA blocks ahead, all u64/u16 values", cuts=_C30_CUTS, timeout={"quick": 1500, "thorough": 3600}, mem_gb=16, unwindset=_BTDROP),
        H("c30_select_n4", [_SEL], "<= 4 DA blocks ahead, all u64/u16 values", cuts=_C30_CUTS, timeout={"quick": 1800, "thorough": 3600}, mem_gb=16, unwindset=_BTDROP),
        H("c30_select_n6", [_SEL], "<= 6 DA blocks ahead, all u64/u16 values", cuts=_C30_CUTS, tiers=("thorough",), timeout={"thorough": 7200}, mem_gb=16, unwindset=_BTDROP),
    ],
}

_PG = "fuel_core_relayer::service::state::"
PROPS["C29"] = {
    "crate": "relayer",
    "level": "model_checking",
    "explanation": "The pager and the adaptive page sizer that decide which DA heights each RPC call covers are executed "
                   "symbolically: the first page of any gap, the inductive step from any valid page, the sizer step from any "
                   "sizer state, and k pages in a row with arbitrary RPC outcomes.",
    "bounds": "all u64 heights below 2^63, all u64 page sizes / thresholds / log counts; sizer step: page size < 2^24 (quick) and "
              "full u64 (thorough); pager sequence: k = 4 (quick), 6 (thorough) RPC calls from any gap and sizer configuration",
    "outside": "the try_unfold stream over the alloy RPC provider in download_logs (its three-line driver is restated in the "
               "harness), write_logs (HashMap per height) and insert_events (storage), log ordering, the retry loop; heights at "
               "u64::MAX (the pager's saturating arithmetic repeats the last page there)",
    "assumptions": ["DA heights < 2^63", "initial page size >= 1 (config)", "an RPC error ends the download stream (as in download_logs) and nothing of the failed page is written"],
    "harnesses": [
        H("c29_first_page", [_PG + "EthSyncGap::page", _PG + "EthSyncPage::is_empty"], "any gap, any page size"),
        H("c29_page_step", [_PG + "EthSyncPage::advance_and_resize"], "any valid page, any new size"),
        H("c29_sizer_step_b24", ["fuel_core_relayer::service::AdaptivePageSizer::update"], "page size < 2^24, any max/threshold/log counts, <= 2 prior successes", tiers=("quick",)),
        H("c29_sizer_step_b64", ["fuel_core_relayer::service::AdaptivePageSizer::update"], "any u64 page size", tiers=("thorough",), timeout={"thorough": 3600}),
        H("c29_pager_k4", [_PG + "EthSyncGap::page", _PG + "EthSyncPage::advance_and_resize", "AdaptivePageSizer::update"], "4 RPC calls, any outcomes"),
        H("c29_pager_k6", [_PG + "EthSyncGap::page", _PG + "EthSyncPage::advance_and_resize", "AdaptivePageSizer::update"], "6 RPC calls, any outcomes", tiers=("thorough",), timeout={"thorough": 3600}),
    ],
}

_C08_CUTS = ["BlockHeaderV1::recalculate_metadata -> no-op (sha256 of the header; the id is not read)",
             "alloc::fmt::format -> empty string", "Backtrace::capture -> disabled", "RandomState::new -> fixed keys (the Changes map is only created and moved)"]
PROPS["C08"] = {
    "crate": "importer",
    "level": "model_checking",
    "explanation": "The admission decision the importer takes for every block before anything is committed "
                   "(create_block_changes) is executed symbolically against a database whose answers are symbolic and "
                   "compared with the rule in the statement, for every block height, database height and consensus kind.",
    "bounds": "one import request; all u32 block heights and database heights; Genesis / PoA consensus; every answer "
              "(value, none, error) of latest_block_height and store_new_block",
    "outside": "_commit_result (block Merkle root comparison, commit of the change list, broadcast to subscribers), the "
               "semaphore / task around it, store_new_block itself (storage maps), Consensus variants other than Genesis/PoA "
               "(the enum is non_exhaustive and has none)",
    "assumptions": ["the database port answers arbitrarily but consistently within one request"],
    "harnesses": [
        H("c08_admission_poa", ["fuel_core_importer::importer::create_block_changes"], "PoA-sealed block: all u32 heights, all port answers",
          cuts=_C08_CUTS, timeout={"quick": 1800, "thorough": 3600}),
        H("c08_admission_genesis", ["fuel_core_importer::importer::create_block_changes"], "genesis block: all u32 heights, all port answers",
          cuts=_C08_CUTS, timeout={"quick": 1800, "thorough": 3600}),
    ],
}

_C15_CUTS = ["ApplicationHeader::<GeneratedApplicationFieldsV1>::hash -> a value chosen symbolically by the harness (sha256; kani-compiler aborts on that code)",
             "BlockHeader::validate_transactions -> a boolean chosen symbolically by the harness (fuel-merkle + sha256)",
             "BlockHeaderV1::recalculate_metadata -> no-op (header id is not read)",
             "alloc::fmt::format -> empty string", "Backtrace::capture -> disabled"]
PROPS["C15"] = {
    "crate": "consensus",
    "level": "model_checking",
    "explanation": "The real block verifier (block_verifier::Verifier::verify_block_fields -> poa::verifier::verify_block_fields, "
                   "and the genesis branch) is executed symbolically on a block whose height, previous root, DA height, time and "
                   "application hash are symbolic, against a database with a symbolic parent; acceptance is compared with the "
                   "conjunction of the field rules.",
    "bounds": "one block; all u32 heights, u64 DA heights and times; roots/hashes vary in two of their 32 bytes; every database "
              "answer (value / error) for the parent root and parent header",
    "outside": "the two hash equalities are decided only up to their cut (the application-header hash and the transaction root "
               "are sha256 computations: their result is a symbolic value), PoA signature recovery (secp256k1 FFI), "
               "collision-resistance claims (any change changes the block id)",
    "assumptions": ["the database port answers consistently within one verification"],
    "harnesses": [
        H("c15_poa_fields", ["fuel_core_poa::verifier::verify_block_fields", "fuel_core_consensus_module::block_verifier::Verifier::verify_block_fields"],
          "all field values, all database answers", cuts=_C15_CUTS),
        H("c15_genesis_fields", ["fuel_core_consensus_module::block_verifier::verify_genesis_block_fields", "Verifier::verify_block_fields"],
          "all field values and configured genesis heights", cuts=_C15_CUTS),
        H("c15_try_from_executed", ["fuel_core_types::blockchain::block::Block::try_from_executed"],
          "a received header with any height, roots, DA height, time and application hash, no transactions",
          cuts=["ApplicationHeader::hash, BlockHeaderV1::hash -> arbitrary values (so a recomputation is visible)",
                "BlockHeader::validate_transactions -> symbolic verdict", "recalculate_metadata stays real"]),
    ],
}

_C22_PRE = ["empty", "one non-final status pending", "one preconfirmation pending", "one final status pending",
            "a status and a final status pending", "a failure notice pending", "a status and a failure notice pending",
            "final status pending after its predecessor was read", "closed by the subscriber"]
_C22_OP = ["publish Submitted", "publish PreConfirmationSuccess", "publish PreConfirmationFailure", "publish Success",
           "publish Failure", "publish PreConfirmationSqueezedOut", "publish FailedStatus", "add_failure", "read", "subscriber closes"]
_TUS = "fuel_core_tx_status_manager::tx_status_stream::TxUpdateStream::"
def _c22_harnesses():
    hs = []
    for pre in range(9):
        for op in range(10):
            for alt in ("a", "b"):
                hs.append(H(f"c22_p{pre}_o{op}_{alt}", [_TUS + "add_msg", _TUS + "add_failure", _TUS + "try_next", _TUS + "close_recv", _TUS + "is_closed"],
                            f"from: {_C22_PRE[pre]} ({'Submitted/PreConfirmationSuccess/Success' if alt == 'a' else 'PreConfirmationFailure/Failure/squeeze-out'} kinds); "
                            f"operation: {_C22_OP[op]}; all u64 publication numbers",
                            tiers=("quick", "thorough") if alt == "a" else ("thorough",), timeout={"quick": 900, "thorough": 1200}, mem_gb=12,
                            unwindset=[(r"drop_glue.*(7receipt7Receipt|6output6Output|7fuel_tx)", 1)]))
    return hs
PROPS["C22"] = {
    "crate": "txstatus",
    "level": "model_checking",
    "explanation": "Inductive step over the real per-subscriber buffer: from each of its nine states (reached by the shortest "
                   "publication sequence, publication numbers symbolic) every operation is applied once, the stream is drained, "
                   "and what was delivered is checked: only published statuses, in publication order, no duplicates, nothing "
                   "after a final status or after the subscriber closed, a drained subscriber receives the next publication and "
                   "its stream ends after a final one.",
    "bounds": "one operation from each of 9 buffer states x 10 operations = 90 instances per kind set (quick: one kind set, thorough: both; "
              "publication kinds enumerated, numbers symbolic u64); the destructor loop over a status' receipts vector is limited to 0 "
              "iterations with the unwinding assertion on (payload vectors are empty); "
              "sequences longer than state-reaching prefix + 1 operation + drain are covered by induction over the 9 states",
    "outside": "UpdateSender (HashMap registry of subscribers, tokio mpsc, subscription limits, drop handling), the manager and "
               "the status cache; payload contents of the statuses (receipts, outputs)",
    "assumptions": ["the nine states built by the harness are all states of the buffer (State enum has exactly these variants)",
                    "statuses are identified by a number carried in their timestamp / total_gas field"],
    "harnesses": _c22_harnesses(),
}

_AU = "fuel_gas_price_algorithm::v1::AlgorithmUpdaterV1::"
_C34_CUTS = ["AlgorithmUpdaterV1::p, ::d -> any i128 (P and D terms: i128 division by a symbolic component)",
             "AlgorithmUpdaterV1::da_change -> any value within +-max_change() (contract; the real function multiplies two 128-bit values with overflow detection)",
             "AlgorithmUpdaterV1::da_portion_of_fee -> any u128", "update_projected_da_cost / recalculate_projected_cost -> projected cost becomes arbitrary (u128 x u128 products; it only feeds P/D)"]
PROPS["C34"] = {
    "crate": "algo",
    "level": "model_checking",
    "explanation": "One update step from ANY updater state (all fields symbolic, so every history is covered): a skipped height is "
                   "rejected with the state bit-identical; the execution price keeps its floor and per-block rate; the DA price keeps "
                   "its floor, ceiling and per-block rate; activity stays in range; DA record updates keep the same DA bounds.",
    "bounds": "one step; all u64/u128/i128/u16 field values; any block capacity for the execution step, capacity fixed to 30,000,000 for the "
              "activity step and the whole L2 update (the fullness division only selects the direction); gas price factor 1 and 100; DA record: <= 2 recorded heights, recorded bytes 0 / 1000",
    "outside": "in the step harnesses da_change is replaced by its contract |change| <= price*percent/100; the contract itself is decided "
               "on the real function for gas_price_factor = 1 only (c34_da_change_f1, ~10 min: 128-bit saturating multiply); "
               "the values of the P/D terms and of the reward/cost bookkeeping (cut to arbitrary values, so the bounds hold for any), "
               "the gas price service wrapper (tokio + storage)",
    "assumptions": ["gas_price_factor != 0 (NonZeroU64)", "chain_activity <= max_activity (established by L2ActivityTracker::new)"],
    "harnesses": [
        H("c34_skipped_height", [_AU + "update_l2_block_data"], "any updater, any height != next", timeout={"quick": 1200, "thorough": 3600}),
        H("c34_exec_step_anycap", [_AU + "update_exec_gas_price", _AU + "exec_change", _AU + "min_scaled_exec_gas_price"], "any updater, any used gas, any block capacity", timeout={"quick": 1800, "thorough": 3600}),
        H("c34_da_step_f1", [_AU + "update_da_gas_price", _AU + "da_change_accounting_for_activity", _AU + "max_change", _AU + "min_scaled_da_gas_price", _AU + "max_scaled_da_gas_price"], "any updater, factor 1", cuts=_C34_CUTS, timeout={"quick": 1200, "thorough": 3600}),
        H("c34_da_step_f100", [_AU + "update_da_gas_price"], "any updater, factor 100", cuts=_C34_CUTS, timeout={"quick": 1200, "thorough": 3600}),
        H("c34_activity_cap30m", [_AU + "update_activity", "L2ActivityTracker::update", _AU + "da_change_accounting_for_activity"], "any updater, capacity 30,000,000", timeout={"quick": 1200, "thorough": 3600}),
        H("c34_da_record_f1_b1000", [_AU + "update_da_record_data", _AU + "da_block_update", _AU + "update_unrecorded_block_bytes"], "<= 2 heights, 1000 recorded bytes", cuts=_C34_CUTS, timeout={"quick": 1800, "thorough": 3600}),
        H("c34_da_record_f100_b0", [_AU + "update_da_record_data"], "<= 2 heights, 0 recorded bytes", cuts=_C34_CUTS, timeout={"quick": 1800, "thorough": 3600}),
        H("c34_da_change_f1", [_AU + "da_change", _AU + "max_change"], "any updater with factor 1, any i128 P and D terms (the real clamp, no cut)", timeout={"quick": 2400, "thorough": 5400}, mem_gb=16),
        H("c34_activity_anycap", [_AU + "update_activity", "L2ActivityTracker::update"], "any updater, any block capacity", tiers=("thorough",), timeout={"thorough": 5400}, mem_gb=16),
        H("c34_l2_update_f1", [_AU + "update_l2_block_data"], "any updater, next height, capacity 30,000,000, factor 1", cuts=_C34_CUTS, tiers=("thorough",), timeout={"thorough": 7200}),
    ],
}

PROPS["C11"] = {
    "crate": "core",
    "level": "model_checking",
    "explanation": "Reverse prefix iteration over RocksDB seeks to next_prefix(prefix) and walks back while keys carry the prefix; "
                   "that equals the sorted-map answer iff [prefix, next_prefix(prefix)) holds exactly the keys with the prefix. The real "
                   "next_prefix is executed symbolically for every prefix and key within the bound.",
    "bounds": "prefix <= 3 bytes (quick) / 4 bytes (thorough), key <= 4 bytes, all byte values",
    "outside": "everything else in the statement: RocksDB itself (C++ behind FFI), the history-keeping store, MemoryStore (BTreeMap), "
               "commits, forward iteration, start keys; a stored key equal to next_prefix(prefix) itself (seek_for_prev lands on it and "
               "take_while stops; cannot occur when all keys of a column are longer than the prefix, as in fuel-core's tables)",
    "assumptions": ["RocksDB seek_for_prev(k) positions at the greatest key <= k and prev() walks in descending key order (RocksDB documentation)"],
    "harnesses": [
        H("c11_next_prefix_p2", ["fuel_core::state::rocks_db::next_prefix"], "prefix <= 2 bytes, key <= 4 bytes"),
        H("c11_next_prefix_p3", ["fuel_core::state::rocks_db::next_prefix"], "prefix <= 3 bytes, key <= 4 bytes"),
        H("c11_next_prefix_p4", ["fuel_core::state::rocks_db::next_prefix"], "prefix <= 4 bytes, key <= 4 bytes", tiers=("thorough",)),
    ],
}
_BAL = "fuel_core::graphql_api::indexation::balances::"
PROPS["C36"] = {
    "crate": "core",
    "level": "model_checking",
    "explanation": "One executor event applied by the real balances indexer and by the real coins-to-spend indexer to an arbitrary stored state: the stored value afterwards "
                   "is the accounting equation (before +- amount in the right component, only the event's key written), a deduction "
                   "larger than the balance is an underflow error with no write, disabled indexation touches nothing. With exact "
                   "executor events this step preserves 'indexed balance = sum of unspent amounts'.",
    "bounds": "one event (CoinCreated / CoinConsumed / MessageImported / MessageConsumed, retryable or not) from any stored u128 "
              "balance or none, any u64 amount; owners and assets vary in one byte (equal or different keys)",
    "outside": "the owned-coin / owned-message indexes (key insert/remove on real tables), the worker service that sequences the updates (process_executor_events; only its per-event step update_event_based_indexation is covered), "
               "exactness of the executor's events (C02), sums above u128::MAX - u64::MAX (saturating add)",
    "assumptions": ["one event touches one balance key, so a one-slot-per-table transaction mock is faithful for a single step",
                    "storage reads/writes of the mock succeed"],
    "harnesses": [
        H("c36_coin_step", [_BAL + "update", _BAL + "increase_coin_balance", _BAL + "decrease_coin_balance"], "any stored coin balance, any coin event",
          cuts=["alloc::fmt::format -> empty string", "Backtrace::capture -> disabled"]),
        H("c36_message_step", [_BAL + "update", _BAL + "increase_message_balance", _BAL + "decrease_message_balance"], "any stored message balance, any message event",
          cuts=["alloc::fmt::format -> empty string", "Backtrace::capture -> disabled"]),
        H("c36_to_spend_step", ["fuel_core::graphql_api::indexation::coins_to_spend::update", "add_coin", "remove_coin", "add_message", "remove_message",
                                "CoinsToSpendIndexKey::from_coin", "CoinsToSpendIndexKey::from_message"],
          "one coin/message event against the coins-to-spend index (entry present or absent), any u64 amount",
          cuts=["alloc::fmt::format -> empty string", "Backtrace::capture -> disabled"]),
        H("c36_event_flags", ["fuel_core::graphql_api::worker_service::update_event_based_indexation", _BAL + "update",
                              "fuel_core::graphql_api::indexation::coins_to_spend::update"],
          "one coin/message event through the worker's event-based indexation on an empty store, both enable flags symbolic",
          cuts=["alloc::fmt::format -> empty string", "Backtrace::capture -> disabled"]),
    ],
}

_SQ = "fuel_core_services::seqlock::"
PROPS["C42"] = {
    "crate": "services",
    "level": "model_checking",
    "technique": "sequentialised bounded model checking: the real reader runs in Kani/CBMC while an environment writer, scheduled by "
                 "symbolic choices at every atomic operation of the reader, replays the memory effects of the real writer",
    "explanation": "Kani is single-threaded, so the thread schedule becomes data: the real SeqLockReader::read runs with its loads, "
                   "fences and yield stubbed to let an environment writer take 0..=4 steps first; the environment performs exactly "
                   "the real writer's memory effects (sequence+1, data half, data half, sequence+1), which a second harness "
                   "establishes from the real SeqLockWriter::write. Every interleaving of one read with <= 2 writes at the granularity "
                   "of atomic operations is decided.",
    "bounds": "instantiations T = (u64,u64) and T = (u32,u32); one read racing with 1 (w1) or 2 (w2) writes of distinct equal-halves values; the writer may have taken any number of "
              "steps before the read starts; 8 scheduling points with 0..=4 writer steps each, then the write in progress completes "
              "(fairness); reader loop unwound 9 times with the unwinding assertion on",
    "outside": "weak-memory reorderings (CBMC executes sequentially consistent; the Acquire/Release arguments are ignored), several "
               "concurrent readers (reads do not write), torn hardware reads of the data cell, panics inside the write closure",
    "assumptions": ["sequential consistency", "there is exactly one writer (enforced by the type: SeqLockWriter is not Clone)",
                    "the data copy in the reader is one step; the writer's data update is two steps (halves)"],
    "harnesses": [
        H("c42_writer_trace", [_SQ + "SeqLockWriter::write", _SQ + "SeqLock::new"], "any initial and written value",
          cuts=["Atomic<u64>::fetch_add -> performs the add and records it", "atomic::fence -> recorded", "panic::catch_unwind -> Ok(f()) (abort-on-panic model)"]),
        H("c42_reader_w1", [_SQ + "SeqLockReader::read"], "1 concurrent write, all schedules within the budget",
          cuts=["Atomic<u64>::load -> environment writer steps, then the load", "atomic::fence, thread::yield_now -> environment writer steps"],
          timeout={"quick": 1500, "thorough": 3600}, replay="kani"),
        H("c42_reader32_w1", [_SQ + "SeqLockReader::read"], "instantiation T = (u32, u32) (a value that fits in one machine word): 1 concurrent write",
          cuts=["Atomic<u64>::load -> environment writer steps, then the load", "atomic::fence, thread::yield_now -> environment writer steps"],
          timeout={"quick": 1500, "thorough": 3600}, replay="kani"),
        H("c42_reader_w2", [_SQ + "SeqLockReader::read"], "2 concurrent writes, all schedules within the budget",
          cuts=["Atomic<u64>::load -> environment writer steps, then the load", "atomic::fence, thread::yield_now -> environment writer steps"],
          timeout={"quick": 1800, "thorough": 3600}, replay="kani"),
    ],
}

//! C27 — sync batching partitions every requested range exactly.
//!
//! Code under test (real, private): `Cache::{get_chunks, handle_current_chunk,
//! push_missing_chunks}` of fuel-core-sync, reached through the feature-gated
//! `import::cache_verif` module instance and its `verif_hooks` forwarders.
//!
//! Decomposition: (1) gap kernel and (2) step kernel, both on the real private
//! functions. The loop of `get_chunks` that composes them could not be brought
//! within reach (DESIGN §5 C27: symbolic execution of Vec growth / drop glue /
//! step_by size hints did not finish or exhausted memory at range <= 4).
//! The native replay of a gap counterexample goes through the REAL public
//! `get_chunks` on a REAL cache.
use crate::vsrc::Src;
#[cfg(kani)]
use crate::vsrc::KaniSrc;
use fuel_core_sync::import::cache_verif::{
    verif_hooks as hk, Cache, CachedData, CachedDataBatch,
};
use fuel_core_types::blockchain::{
    block::Block,
    consensus::Sealed,
    header::{BlockHeader, BlockHeaderV1},
    SealedBlock, SealedBlockHeader,
};
use std::num::NonZeroU32;

pub fn header(height: u32) -> SealedBlockHeader {
    let mut h = BlockHeader::V1(BlockHeaderV1::default());
    h.consensus_mut().height = height.into();
    Sealed { entity: h, consensus: Default::default() }
}

pub fn block(height: u32) -> SealedBlock {
    let mut b = Block::default();
    b.header_mut().consensus_mut().height = height.into();
    Sealed { entity: b, consensus: Default::default() }
}

/// The partition property on a list of chunks for the half-open range [start, end).
/// `max` is the batch size. Returns nothing; asserts.
fn check_partition(chunks: &[CachedDataBatch], start: u32, end: u32, max: u32) {
    let mut at = start;
    let mut i = 0;
    while i < chunks.len() {
        let (kind, s, e, items) = hk::view(&chunks[i]);
        vassert!(s == at, "C27 every batch starts where the previous one ended (no gap, no overlap)");
        vassert!(e > s, "C27 no batch is empty");
        vassert!(e - s <= max, "C27 no batch is larger than the batch size");
        vassert!(e <= end, "C27 no batch reaches past the requested range");
        if kind != 0 {
            vassert!(items as u32 == e - s, "C27 a cached batch carries one item per height");
            let mut j = 0;
            while j < items {
                vassert!(hk::item_height(&chunks[i], j) == Some(s + j as u32),
                    "C27 a cached batch carries exactly the cached items for its heights, in order");
                j += 1;
            }
        }
        at = e;
        i += 1;
    }
    vassert!(at == end, "C27 the batches cover the requested range to its end");
}

/// (1) gap kernel: `push_missing_chunks(chunks, cur, height, max, end)` appends
/// a partition of [cur, height) into `None` batches.
/// Caller contract (from `get_chunks`): cur <= height <= end.
pub fn gap<S: Src>(s: &mut S) {
    let cur = s.u32();
    let height = s.u32();
    let end = s.u32();
    let max = s.u32();
    vassume!(max >= 1);
    vassume!(cur <= height && height <= end);
    // bound: at most 4 batches in the gap
    vassume!(((height - cur) as u64) <= 4 * (max as u64));
    let mut chunks: Vec<CachedDataBatch> = Vec::new();
    hk::push_missing_chunks(&mut chunks, cur, height, NonZeroU32::new(max).unwrap(), end);
    let mut i = 0;
    while i < chunks.len() {
        vassert!(hk::view(&chunks[i]).0 == 0, "C27 a gap yields only uncached batches");
        i += 1;
    }
    check_partition(&chunks, cur, height, max);
    // canonical: every batch but the last is full
    let mut i = 0;
    while i + 1 < chunks.len() {
        let (_, s0, e0, _) = hk::view(&chunks[i]);
        vassert!(e0 - s0 == max, "C27 only the last batch of a gap may be shorter than the batch size");
        i += 1;
    }
    vreach!();
    vreach!(chunks.len() == 4, "C27 gap of four batches reachable");
    std::mem::forget(chunks);
}

/// (2) step kernel: `handle_current_chunk` from every reachable shape of the
/// current chunk (None(0..0) | Headers | Blocks ending at `height`, 1..=max
/// items) with a header or a block cached at `height`.
pub fn step<S: Src, const CUR_KIND: u8, const DATA_IS_BLOCK: bool, const CUR_LEN: u32>(s: &mut S) {
    let max = s.u32();
    let height = s.u32();
    let cur_len = CUR_LEN;
    let cur_kind = CUR_KIND;
    let data_is_block = DATA_IS_BLOCK;
    vassume!(max >= 1 && max <= 3);
    vassume!(height < u32::MAX);
    let current = if cur_kind == 0 {
        CachedDataBatch::None(0..0)
    } else {
        vassume!(cur_len >= 1 && cur_len <= max && cur_len <= height);
        let start = height - cur_len;
        if cur_kind == 1 {
            let mut v = Vec::new();
            let mut i = 0;
            while i < cur_len {
                v.push(header(start + i));
                i += 1;
            }
            hk::headers_chunk(start..height, v)
        } else {
            let mut v = Vec::new();
            let mut i = 0;
            while i < cur_len {
                v.push(block(start + i));
                i += 1;
            }
            hk::blocks_chunk(start..height, v)
        }
    };
    let data = if data_is_block { CachedData::Block(block(height)) } else { CachedData::Header(header(height)) };
    let data_kind: u8 = if data_is_block { 2 } else { 1 };
    let mut chunks: Vec<CachedDataBatch> = Vec::with_capacity(4);
    let next = hk::handle_current_chunk(current, data, height, &mut chunks, NonZeroU32::new(max).unwrap());
    // closed chunks followed by the new current chunk must partition
    // [start of the old current chunk, height + 1)
    let old_start = if cur_kind == 0 { height } else { height - cur_len };
    vassert!(chunks.len() <= 1, "C27 a step closes at most one batch");
    let closed = chunks.len() == 1;
    let (nk, ns, ne, ni) = hk::view(&next);
    vassert!(nk == data_kind, "C27 the cached item lands in a batch of its own kind");
    vassert!(ne == height + 1, "C27 the current batch ends right after the cached height");
    vassert!(ne - ns <= max, "C27 no batch is larger than the batch size");
    vassert!(ni as u32 == ne - ns, "C27 a cached batch carries one item per height");
    if closed {
        let (pk, ps, pe, pi) = hk::view(&chunks[0]);
        vassert!(pk == cur_kind && ps == old_start && pe == height && pi as u32 == cur_len,
            "C27 a closed batch is the previous current batch, unchanged");
        let mut j = 0;
        while j < CUR_LEN {
            vassert!(hk::item_height(&chunks[0], j as usize) == Some(old_start + j),
                "C27 a closed batch carries exactly the cached items for its heights, in order");
            j += 1;
        }
        vassert!(ns == height, "C27 every batch starts where the previous one ended (no gap, no overlap)");
        vassert!(hk::item_height(&next, 0) == Some(height), "C27 the new batch carries the cached item");
    } else {
        vassert!(ns == old_start, "C27 every batch starts where the previous one ended (no gap, no overlap)");
        vassert!(cur_kind == 0 || cur_kind == data_kind, "C27 headers and blocks are never mixed in one batch");
        let mut j = 0;
        while j <= CUR_LEN {
            if (j as usize) < ni {
                vassert!(hk::item_height(&next, j as usize) == Some(ns + j),
                    "C27 a cached batch carries exactly the cached items for its heights, in order");
            }
            j += 1;
        }
    }
    vreach!();
    std::mem::forget(next);
    std::mem::forget(chunks);
}

// ---------------------------------------------------------------------------
// Whole-function harness for `Cache::get_chunks` (real types).
//
// What makes it feasible (DESIGN §5 C27): under Kani the vector of produced
// batches is never materialised. `Vec::push` is stubbed by a function that
// RECORDS a batch (kind, range, item count, whether its items are the heights of
// its range) in a small ghost log and forgets it, and behaves like the real push
// for every other element type; `push_missing_chunks` is replaced by its contract
// (decided on the real function by `c27_gap`), which records through the same
// log; `collect_cache_data` (BTreeMap range scan) is replaced by the environment
// model "exactly N cached headers at ascending in-range heights"; the destructor
// loops of transactions (dead here: no block is ever built) get a per-loop
// unwinding limit. The native replay uses none of this: a REAL cache is filled
// through `insert_headers` and the REAL `get_chunks` output is read back.
// ---------------------------------------------------------------------------
pub const LOGMAX: usize = 8;
pub type LogEntry = (u8, u32, u32, u32, bool);

pub fn log_entry(chunk: &CachedDataBatch) -> LogEntry {
    let (kind, s0, e0, cnt) = hk::view(chunk);
    let mut items_ok = true;
    if kind != 0 {
        let mut j = 0usize;
        while j < 4 {
            if j < cnt && hk::item_height(chunk, j) != Some(s0.wrapping_add(j as u32)) {
                items_ok = false;
            }
            j += 1;
        }
    }
    (kind, s0, e0, cnt as u32, items_ok)
}

#[cfg(kani)]
pub mod whole_env {
    use super::*;
    pub static mut LOG: [LogEntry; LOGMAX] = [(0, 0, 0, 0, true); LOGMAX];
    pub static mut LOG_N: usize = 0;
    pub static mut ITEMS: [u32; 3] = [0; 3];
    pub static mut NITEMS: usize = 0;

    pub fn record(chunk: &CachedDataBatch) {
        let e = log_entry(chunk);
        unsafe {
            let n = *std::ptr::addr_of!(LOG_N);
            if n < LOGMAX {
                (*std::ptr::addr_of_mut!(LOG))[n] = e;
            }
            *std::ptr::addr_of_mut!(LOG_N) = n + 1;
        }
    }

    /// Replaces `Vec::push` for every element type in the harness.
    pub fn push_model<T, A: std::alloc::Allocator>(v: &mut Vec<T, A>, x: T) {
        if std::mem::size_of::<T>() == std::mem::size_of::<CachedDataBatch>()
            && std::mem::align_of::<T>() == std::mem::align_of::<CachedDataBatch>()
        {
            // the only vector of that element type in this harness is `chunks`
            let chunk: &CachedDataBatch = unsafe { &*(&x as *const T as *const CachedDataBatch) };
            record(chunk);
            std::mem::forget(x);
        } else {
            let len = v.len();
            v.reserve(1);
            unsafe {
                std::ptr::write(v.as_mut_ptr().add(len), x);
                v.set_len(len + 1);
            }
        }
    }

    pub fn gap_model(_chunks: &mut Vec<CachedDataBatch>, cur: u32, height: u32, max: NonZeroU32, _end: u32) {
        let mut at = cur;
        while at < height {
            let e = at.saturating_add(max.get()).min(height);
            record(&CachedDataBatch::None(at..e));
            at = e;
        }
    }

    pub fn collect_model(_c: &Cache, _range: std::ops::RangeInclusive<u32>) -> Vec<(u32, CachedData)> {
        unsafe {
            let n = *std::ptr::addr_of!(NITEMS);
            let items = *std::ptr::addr_of!(ITEMS);
            // built without `push` (which is stubbed in this harness)
            match n {
                0 => Vec::with_capacity(1),
                1 => vec![(items[0], CachedData::Header(header(items[0])))],
                2 => vec![
                    (items[0], CachedData::Header(header(items[0]))),
                    (items[1], CachedData::Header(header(items[1]))),
                ],
                _ => vec![
                    (items[0], CachedData::Header(header(items[0]))),
                    (items[1], CachedData::Header(header(items[1]))),
                    (items[2], CachedData::Header(header(items[2]))),
                ],
            }
        }
    }
}

/// `get_chunks(start..=start+len-1, max)` with exactly N cached headers.
/// LAYOUT = 0: range length and the cached offsets are symbolic.
/// LAYOUT = 0xABC (hex digits, N = 2 only): range length A, cached offsets B and C
/// are fixed (the start height and the batch size stay symbolic) — two cached
/// items with symbolic positions exhaust 44 GB in CBMC.
pub fn whole<S: Src, const RANGE_MAX: u32, const N: usize, const LAYOUT: u32>(s: &mut S) {
    let start = s.u32();
    let len = if LAYOUT == 0 { s.u32() } else { (LAYOUT >> 8) & 0xf };
    let max = s.u32();
    vassume!(len >= 1 && len <= RANGE_MAX);
    vassume!(max >= 1 && max <= RANGE_MAX);
    vassume!(start <= u32::MAX - RANGE_MAX - 1);
    let last = start + (len - 1);
    let mut items = [0u32; 3];
    let mut prev: Option<u32> = None;
    let mut i = 0;
    while i < N {
        let off = if LAYOUT == 0 { s.u32() } else if i == 0 { (LAYOUT >> 4) & 0xf } else { LAYOUT & 0xf };
        vassume!(off < len);
        let h = start + off;
        if let Some(p) = prev {
            vassume!(h > p);
        }
        prev = Some(h);
        items[i] = h;
        i += 1;
    }
    #[allow(unused_mut)]
    let mut cache = Cache::new();
    #[cfg(kani)]
    let (n_log, log) = {
        use whole_env::*;
        unsafe {
            *std::ptr::addr_of_mut!(ITEMS) = items;
            *std::ptr::addr_of_mut!(NITEMS) = N;
            *std::ptr::addr_of_mut!(LOG_N) = 0;
        }
        let stream = cache.get_chunks(start..=last, NonZeroU32::new(max).unwrap());
        std::mem::forget(stream);
        unsafe { (*std::ptr::addr_of!(LOG_N), *std::ptr::addr_of!(LOG)) }
    };
    #[cfg(not(kani))]
    let (n_log, log) = {
        let mut i = 0;
        while i < N {
            hk::insert_header(&mut cache, items[i], header(items[i]));
            i += 1;
        }
        let stream = cache.get_chunks(start..=last, NonZeroU32::new(max).unwrap());
        let chunks: Vec<CachedDataBatch> = futures::executor::block_on(futures::StreamExt::collect::<Vec<_>>(stream));
        let mut log = [(0u8, 0u32, 0u32, 0u32, true); LOGMAX];
        let mut i = 0;
        while i < chunks.len() && i < LOGMAX {
            log[i] = log_entry(&chunks[i]);
            i += 1;
        }
        (chunks.len(), log)
    };
    std::mem::forget(cache);

    vassert!(n_log <= LOGMAX && n_log <= RANGE_MAX as usize, "C27 there are never more batches than heights");
    let end = last + 1;
    let mut at = start;
    let mut cached_total = 0u32;
    let mut delivered = [false; 3];
    let mut i = 0;
    while i < RANGE_MAX as usize {
        if i < n_log {
            let (kind, s0, e0, cnt, items_ok) = log[i];
            vassert!(s0 == at, "C27 every batch starts where the previous one ended (no gap, no overlap, in order)");
            vassert!(e0 > s0, "C27 no batch is empty");
            vassert!(e0 - s0 <= max, "C27 no batch is larger than the batch size");
            vassert!(e0 <= end, "C27 no batch reaches past the requested range");
            if kind != 0 {
                vassert!(kind == 1, "C27 cached headers are delivered as a header batch");
                vassert!(cnt == e0 - s0, "C27 a cached batch carries one item per height");
                vassert!(items_ok, "C27 a cached batch carries exactly the cached items for its heights, in order");
                cached_total += cnt;
            }
            let mut k = 0;
            while k < N {
                if s0 <= items[k] && items[k] < e0 {
                    vassert!(kind == 1, "C27 a cached height is delivered in a cached batch");
                    delivered[k] = true;
                }
                k += 1;
            }
            at = e0;
        }
        i += 1;
    }
    vassert!(at == end, "C27 the batches cover the requested range to its end");
    let mut k = 0;
    while k < N {
        vassert!(delivered[k], "C27 every cached height is delivered from the cache");
        k += 1;
    }
    vassert!(cached_total as usize == N, "C27 cached batches carry only cached heights");
    vreach!();
    vreach!(n_log >= 3, "C27 three or more batches reachable");
}

#[cfg(kani)]
mod proofs {
    use super::*;
    use crate::vsrc::KaniSrc;

    #[kani::proof]
    #[kani::stub(std::rt::thread_cleanup, crate::noop)]
    #[kani::unwind(6)]
    fn c27_gap() {
        gap(&mut KaniSrc);
    }

    macro_rules! step_proof {
        ($name:ident, $k:expr, $b:expr, $l:expr) => {
            #[kani::proof]
            #[kani::stub(std::rt::thread_cleanup, crate::noop)]
            #[kani::stub(fuel_core_types::blockchain::header::BlockHeaderV1::recalculate_metadata, crate::noop_header)]
            #[kani::unwind(5)]
            fn $name() {
                step::<_, $k, $b, $l>(&mut KaniSrc);
            }
        };
    }
    step_proof!(c27_step_none_header, 0, false, 0);
    step_proof!(c27_step_none_block, 0, true, 0);
    step_proof!(c27_step_headers1_header, 1, false, 1);
    step_proof!(c27_step_headers2_header, 1, false, 2);
    step_proof!(c27_step_headers1_block, 1, true, 1);
    step_proof!(c27_step_headers2_block, 1, true, 2);
    step_proof!(c27_step_blocks1_header, 2, false, 1);
    step_proof!(c27_step_blocks2_header, 2, false, 2);
    step_proof!(c27_step_blocks1_block, 2, true, 1);
    step_proof!(c27_step_blocks2_block, 2, true, 2);

    macro_rules! whole_proof {
        ($name:ident, $r:expr, $n:expr, $unwind:expr, $layout:expr) => {
            #[kani::proof]
            #[kani::stub(std::rt::thread_cleanup, crate::noop)]
            #[kani::stub(fuel_core_sync::import::cache_verif::Cache::collect_cache_data, whole_env::collect_model)]
            #[kani::stub(fuel_core_sync::import::cache_verif::Cache::push_missing_chunks, whole_env::gap_model)]
            #[kani::stub(std::vec::Vec::push, whole_env::push_model)]
            #[kani::unwind($unwind)]
            fn $name() {
                whole::<_, $r, $n, $layout>(&mut KaniSrc);
            }
        };
    }
    whole_proof!(c27_whole_r4_n0, 4, 0, 6, 0);
    whole_proof!(c27_whole_r4_n1, 4, 1, 6, 0);
}

//! Harnesses for fuel-core-sync: C28 (sync status) and C27 (batch partition).
#![allow(clippy::all)]
#![cfg_attr(kani, feature(allocator_api))]

#[path = "../../common/vsrc.rs"]
#[macro_use]
pub mod vsrc;

pub mod c27;
pub mod c28;

#[cfg(not(kani))]
pub const REPLAY: &[(&str, fn(&mut vsrc::ReplaySrc))] = &[
    ("c27_gap", |s| c27::gap(s)),
    ("c27_step_none_header", |s| c27::step::<_, 0, false, 0>(s)),
    ("c27_step_none_block", |s| c27::step::<_, 0, true, 0>(s)),
    ("c27_step_headers1_header", |s| c27::step::<_, 1, false, 1>(s)),
    ("c27_step_headers2_header", |s| c27::step::<_, 1, false, 2>(s)),
    ("c27_step_headers1_block", |s| c27::step::<_, 1, true, 1>(s)),
    ("c27_step_headers2_block", |s| c27::step::<_, 1, true, 2>(s)),
    ("c27_step_blocks1_header", |s| c27::step::<_, 2, false, 1>(s)),
    ("c27_step_blocks2_header", |s| c27::step::<_, 2, false, 2>(s)),
    ("c27_step_blocks1_block", |s| c27::step::<_, 2, true, 1>(s)),
    ("c27_step_blocks2_block", |s| c27::step::<_, 2, true, 2>(s)),
    ("c27_whole_r4_n0", |s| c27::whole::<_, 4, 0, 0>(s)),
    ("c27_whole_r4_n1", |s| c27::whole::<_, 4, 1, 0>(s)),
    ("c28_new", |s| c28::new_contract(s)),
    ("c28_commit", |s| c28::commit_step(s)),
    ("c28_observe", |s| c28::observe_step(s)),
    ("c28_failed", |s| c28::failed_step(s)),
];

/// Stub target for `std::rt::thread_cleanup` (kani-compiler cannot translate
/// the real one: it calls `catch_unwind`).
pub fn noop() {}

/// Stub target for `BlockHeaderV1::recalculate_metadata` (sha256 of the header;
/// the id is never read by the code under test).
pub fn noop_header(_h: &mut fuel_core_types::blockchain::header::BlockHeaderV1) {}


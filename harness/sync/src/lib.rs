//! Harnesses for fuel-core-sync: C28 (sync status) and C27 (batch partition).
#![allow(clippy::all)]

#[path = "../../common/vsrc.rs"]
#[macro_use]
pub mod vsrc;

pub mod c28;

#[cfg(not(kani))]
pub const REPLAY: &[(&str, fn(&mut vsrc::ReplaySrc))] = &[
    ("c28_new", |s| c28::new_contract(s)),
    ("c28_commit", |s| c28::commit_step(s)),
    ("c28_observe", |s| c28::observe_step(s)),
    ("c28_failed", |s| c28::failed_step(s)),
];

/// Stub target for `std::rt::thread_cleanup` (kani-compiler cannot translate
/// the real one: it calls `catch_unwind`).
pub fn noop() {}

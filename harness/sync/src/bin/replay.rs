#[cfg(not(kani))]
fn main() {
    vh_sync::vsrc::replay_main(vh_sync::REPLAY);
}
#[cfg(kani)]
fn main() {}

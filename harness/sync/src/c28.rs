//! C28 — the sync status always describes the gap to the best known height.
//!
//! Code under test: the real `fuel_core_sync::state::State::{new, commit,
//! observe, failed_to_process, process_range}` (all public).
//!
//! Reference model (`Ref`), written from the property statement: the status is
//! one of Uninitialized / Committed(c) / Processing(s..=e) with s <= e, and
//!   commit(h)  = "the committed height becomes max(committed, h)";
//!   observe(h) = "the target becomes max(target, h)";
//!   failed(f)  = "the part of the processing range from the first failed
//!                 height on is given up".
//! Every step starts from an ARBITRARY valid status (any history), built through
//! `State::new`, whose own contract is the first obligation.
use crate::vsrc::Src;
use fuel_core_sync::state::State;

#[derive(Clone, Copy, PartialEq, Eq, Debug)]
pub enum Ref {
    Uninit,
    Committed(u32),
    Processing(u32, u32),
}

impl Ref {
    /// Committed height implied by the status (None < Some).
    pub fn committed(self) -> Option<u32> {
        match self {
            Ref::Uninit => None,
            Ref::Committed(c) => Some(c),
            Ref::Processing(s, _) => s.checked_sub(1),
        }
    }

    /// Status for a committed height and a target ("gap to the best known height").
    pub fn derive(committed: Option<u32>, target: Option<u32>) -> Ref {
        let start = match committed {
            None => Some(0u32),
            Some(c) => c.checked_add(1),
        };
        match (start, target) {
            (Some(s), Some(t)) if s <= t => Ref::Processing(s, t),
            _ => match committed {
                Some(c) => Ref::Committed(c),
                None => Ref::Uninit,
            },
        }
    }

    pub fn target(self) -> Option<u32> {
        match self {
            Ref::Processing(_, e) => Some(e),
            _ => None,
        }
    }

    pub fn commit(self, h: u32) -> Ref {
        let committed = self.committed().max(Some(h));
        Ref::derive(committed, self.target())
    }

    pub fn observe(self, h: u32) -> Ref {
        let target = self.target().max(Some(h));
        Ref::derive(self.committed(), target)
    }

    pub fn failed(self, f0: u32, f1: u32) -> Ref {
        match self {
            Ref::Processing(s, e) if f0 <= f1 && f0 <= e && f1 >= s => {
                if f0 <= s {
                    Ref::derive(self.committed(), None)
                } else {
                    Ref::Processing(s, f0 - 1)
                }
            }
            other => other,
        }
    }

    /// The real state that represents this status, through the public constructor.
    pub fn to_state(self) -> State {
        match self {
            Ref::Uninit => State::new(None, None),
            Ref::Committed(c) => State::new(Some(c), None),
            Ref::Processing(0, e) => State::new(None, Some(e)),
            Ref::Processing(s, e) => State::new(Some(s - 1), Some(e)),
        }
    }
}

/// Any valid status (every history ends in one of these).
fn any_ref<S: Src>(s: &mut S) -> Ref {
    let kind = s.u8();
    let a = s.u32();
    let b = s.u32();
    match kind % 3 {
        0 => Ref::Uninit,
        1 => Ref::Committed(a),
        _ => {
            vassume!(a <= b);
            Ref::Processing(a, b)
        }
    }
}

fn check_state(st: &State, expect: Ref) {
    // observable 1: the range offered for processing
    match (st.process_range(), expect) {
        (Some(r), Ref::Processing(s, e)) => {
            vassert!(*r.start() == s, "C28 processing range starts right after the committed height");
            vassert!(*r.end() == e, "C28 processing range ends at the highest observed height");
            vassert!(s <= e, "C28 processing range is non-empty");
        }
        (None, Ref::Uninit) | (None, Ref::Committed(_)) => {}
        _ => vassert!(false, "C28 status kind differs from the reference"),
    }
    // observable 2: equality with the canonical state of the reference status
    vassert!(*st == expect.to_state(), "C28 status differs from the reference");
}

/// Obligation 0: `State::new(c, o)` yields exactly `derive(c, o)`; distinct
/// statuses are distinct states (so `==` is a faithful observer below).
pub fn new_contract<S: Src>(s: &mut S) {
    let c = s.opt_u32();
    let o = s.opt_u32();
    let st = State::new(c, o);
    let r = Ref::derive(c, o);
    match (st.process_range(), r) {
        (Some(rg), Ref::Processing(a, b)) => {
            vassert!(*rg.start() == a && *rg.end() == b, "C28 new: processing range");
            vassert!(a <= b, "C28 new: range non-empty");
        }
        (None, Ref::Uninit) => {
            vassert!(st == State::new(None, None), "C28 new: uninitialized");
        }
        (None, Ref::Committed(x)) => {
            vassert!(st == State::new(Some(x), None), "C28 new: committed");
            vassert!(st != State::new(None, None), "C28 new: committed is not uninitialized");
            let y = s.u32();
            vassert!((st == State::new(Some(y), None)) == (x == y), "C28 new: committed height is exact");
        }
        _ => vassert!(false, "C28 new: status kind differs from the reference"),
    }
    vreach!();
}

pub fn commit_step<S: Src>(s: &mut S) {
    let pre = any_ref(s);
    let h = s.u32();
    let mut st = pre.to_state();
    st.commit(h);
    let post = pre.commit(h);
    check_state(&st, post);
    vassert!(post.committed() >= pre.committed(), "C28 committed height never decreases");
    vassert!(post.committed() >= Some(h), "C28 commit is recorded");
    vreach!();
}

pub fn observe_step<S: Src>(s: &mut S) {
    let pre = any_ref(s);
    let h = s.u32();
    let mut st = pre.to_state();
    let changed = st.observe(h);
    let post = pre.observe(h);
    check_state(&st, post);
    vassert!(changed == (post != pre), "C28 observe reports a status change exactly when there is one");
    vassert!(post.committed() == pre.committed(), "C28 observing never moves the committed height");
    vreach!();
}

pub fn failed_step<S: Src>(s: &mut S) {
    let pre = any_ref(s);
    let f0 = s.u32();
    let f1 = s.u32();
    let mut st = pre.to_state();
    st.failed_to_process(f0..=f1);
    let post = pre.failed(f0, f1);
    check_state(&st, post);
    vassert!(post.committed() == pre.committed(), "C28 a failure never moves the committed height");
    vreach!();
}

#[cfg(kani)]
mod proofs {
    use super::*;
    use crate::vsrc::KaniSrc;

    #[kani::proof]
    #[kani::stub(std::rt::thread_cleanup, crate::noop)]
    fn c28_new() {
        new_contract(&mut KaniSrc);
    }
    #[kani::proof]
    #[kani::stub(std::rt::thread_cleanup, crate::noop)]
    fn c28_commit() {
        commit_step(&mut KaniSrc);
    }
    #[kani::proof]
    #[kani::stub(std::rt::thread_cleanup, crate::noop)]
    fn c28_observe() {
        observe_step(&mut KaniSrc);
    }
    #[kani::proof]
    #[kani::stub(std::rt::thread_cleanup, crate::noop)]
    fn c28_failed() {
        failed_step(&mut KaniSrc);
    }
}

//! C22 — status subscriptions deliver statuses in order and end after a final one.
//!
//! Code under test: the real per-subscriber buffer `TxUpdateStream`
//! (`new, add_msg, add_failure, close_recv, try_next, is_closed`).
//! Inductive step: each of the nine states the buffer can be in is reached by
//! the shortest publication sequence that leads to it (kinds fixed, publication
//! numbers symbolic), then ONE arbitrary operation is applied and the stream is
//! drained; what is delivered is checked against the statement.
use crate::vsrc::Src;
use fuel_core_tx_status_manager::{TxStatusMessage, TxUpdateStream};
use fuel_core_types::{
    services::transaction_status::{statuses, TransactionStatus},
    tai64::Tai64,
};
use std::sync::Arc;

/// Publication kinds. 0 Submitted, 1 PreConfirmationSuccess, 2 PreConfirmationFailure,
/// 3 Success, 4 Failure, 5 PreConfirmationSqueezedOut, 6 = the `FailedStatus` message.
pub const KINDS: u8 = 7;

pub fn is_final_kind(k: u8) -> bool {
    k >= 3
}

/// A status of kind `k` that carries the publication number `n`.
pub fn status(k: u8, n: u64) -> TransactionStatus {
    match k {
        0 => TransactionStatus::Submitted(Arc::new(statuses::Submitted { timestamp: Tai64(n) })),
        1 => TransactionStatus::PreConfirmationSuccess(Arc::new(statuses::PreConfirmationSuccess {
            tx_pointer: Default::default(),
            total_gas: n,
            total_fee: 0,
            receipts: None,
            resolved_outputs: None,
        })),
        2 => TransactionStatus::PreConfirmationFailure(Arc::new(statuses::PreConfirmationFailure {
            tx_pointer: Default::default(),
            total_gas: n,
            total_fee: 0,
            receipts: None,
            resolved_outputs: None,
            reason: String::new(),
        })),
        3 => TransactionStatus::Success(Arc::new(statuses::Success {
            block_height: Default::default(),
            block_timestamp: Tai64(0),
            program_state: None,
            receipts: Arc::new(Vec::new()),
            total_gas: n,
            total_fee: 0,
        })),
        4 => TransactionStatus::Failure(Arc::new(statuses::Failure {
            block_height: Default::default(),
            block_timestamp: Tai64(0),
            reason: String::new(),
            program_state: None,
            receipts: Arc::new(Vec::new()),
            total_gas: n,
            total_fee: 0,
        })),
        _ => TransactionStatus::PreConfirmationSqueezedOut(Arc::new(statuses::PreConfirmationSqueezedOut {
            reason: String::new(),
        })),
    }
}

pub fn message(k: u8, n: u64) -> TxStatusMessage {
    if k == 6 { TxStatusMessage::FailedStatus } else { TxStatusMessage::Status(status(k, n)) }
}

/// (kind, number) of a delivered message; the squeeze-out kind carries no number.
pub fn decode(m: &TxStatusMessage) -> (u8, Option<u64>) {
    match m {
        TxStatusMessage::FailedStatus => (6, None),
        TxStatusMessage::Status(TransactionStatus::Submitted(s)) => (0, Some(s.timestamp.0)),
        TxStatusMessage::Status(TransactionStatus::PreConfirmationSuccess(s)) => (1, Some(s.total_gas)),
        TxStatusMessage::Status(TransactionStatus::PreConfirmationFailure(s)) => (2, Some(s.total_gas)),
        TxStatusMessage::Status(TransactionStatus::Success(s)) => (3, Some(s.total_gas)),
        TxStatusMessage::Status(TransactionStatus::Failure(s)) => (4, Some(s.total_gas)),
        TxStatusMessage::Status(TransactionStatus::PreConfirmationSqueezedOut(_)) => (5, None),
        TxStatusMessage::Status(TransactionStatus::SqueezedOut(_)) => (7, None),
    }
}

/// PRE selects the state to start from; see lib.rs for the names.
/// OP: 0..=5 publish a status of that kind, 6 publish `FailedStatus`,
/// 7 `add_failure`, 8 read, 9 the subscriber closes.
/// ALT = false: pre-states are built from Submitted / PreConfirmationSuccess /
/// Success; ALT = true: from PreConfirmationFailure / Failure / squeeze-out.
pub fn step<S: Src, const PRE: u8, const OP: u8, const ALT: bool>(s: &mut S) {
    let nonfinal_kind: u8 = if ALT { 2 } else { 0 };
    let preconf_kind: u8 = if ALT { 2 } else { 1 };
    // Success/Failure carry an `Arc<Vec<Receipt>>`; the (dead) destructor loop over
    // its receipts gets a per-loop unwinding limit in the driver (DESIGN §5 C22).
    let final_kind: u8 = if ALT { 4 } else { 3 };
    let final_kind2: u8 = if ALT { 5 } else { 3 };
    // publication numbers, in publication order
    let a = s.u64();
    let b = s.u64();
    let c = s.u64();
    vassume!(a < b && b < c);
    // published so far: (kind, number) in order; FailedStatus is kind 6
    let mut published: [(u8, u64); 3] = [(255, 0); 3];
    let mut n_pub = 0usize;
    let mut st = TxUpdateStream::new();
    let mut delivered_before_final = false; // a final item was already delivered
    let mut pending_empty = false; // nothing undelivered, stream open
    match PRE {
        0 => {
            pending_empty = true;
        }
        1 => {
            st.add_msg(message(0, a));
            published[0] = (0, a);
            n_pub = 1;
        }
        2 => {
            let k = preconf_kind;
            st.add_msg(message(k, a));
            published[0] = (k, a);
            n_pub = 1;
        }
        3 => {
            let k = final_kind2;
            st.add_msg(message(k, a));
            published[0] = (k, a);
            n_pub = 1;
        }
        4 => {
            let k1 = nonfinal_kind;
            let k2 = final_kind;
            st.add_msg(message(k1, a));
            st.add_msg(message(k2, b));
            published[0] = (k1, a);
            published[1] = (k2, b);
            n_pub = 2;
        }
        5 => {
            st.add_failure();
            published[0] = (6, a);
            n_pub = 1;
        }
        6 => {
            let k1 = nonfinal_kind;
            st.add_msg(message(k1, a));
            st.add_failure();
            published[0] = (k1, a);
            published[1] = (6, b);
            n_pub = 2;
        }
        7 => {
            let k1 = nonfinal_kind;
            let k2 = final_kind2;
            st.add_msg(message(k1, a));
            st.add_msg(message(k2, b));
            let first = st.try_next();
            vassert!(matches!(&first, Some(m) if decode(m) == (k1, Some(a))), "C22 the first published status is delivered first");
            std::mem::forget(first);
            // k1 was delivered; only (k2, b) is still owed
            published[0] = (k2, b);
            n_pub = 1;
        }
        _ => {
            st.close_recv();
            delivered_before_final = true;
        }
    }

    // ---- one arbitrary operation
    let op: u8 = match OP { 0..=6 => 0, 7 => 1, 8 => 2, _ => 3 }; // 0 publish, 1 publish failure, 2 read, 3 subscriber closes
    let k: u8 = if OP <= 6 { OP } else { 0 };
    let mut first_read: Option<TxStatusMessage> = None;
    let mut did_read = false;
    let mut closed_by_subscriber = PRE == 8;
    match op {
        0 => {
            st.add_msg(message(k, c));
            if n_pub < 3 {
                published[n_pub] = (k, c);
                n_pub += 1;
            }
        }
        1 => {
            st.add_failure();
            if n_pub < 3 {
                published[n_pub] = (6, c);
                n_pub += 1;
            }
        }
        2 => {
            first_read = st.try_next();
            did_read = true;
        }
        _ => {
            st.close_recv();
            closed_by_subscriber = true;
        }
    }

    // ---- drain (at most 3 items can be owed) and check what is delivered
    let mut last_number: Option<u64> = None;
    let mut seen_final = delivered_before_final;
    let mut count = 0usize;
    let mut pos = 0usize; // position in `published` that the next delivery must be at or after
    let mut i = 0;
    while i < 4 {
        let item = if i == 0 && did_read { first_read.take() } else { st.try_next() };
        if item.is_none() {
            std::mem::forget(item);
        } else if let Some(m) = item {
            let (dk, dn) = decode(&m);
            vassert!(!closed_by_subscriber, "C22 nothing is delivered after the subscriber closed its stream");
            vassert!(!seen_final, "C22 nothing is delivered after the first final status");
            // the item was published, and later than everything delivered before it
            let mut found = false;
            let mut j = 0;
            while j < 3 {
                if !found && j >= pos && j < n_pub && published[j].0 == dk && (dn.is_none() || dn == Some(published[j].1)) {
                    found = true;
                    pos = j + 1;
                }
                j += 1;
            }
            vassert!(found, "C22 every delivered status was published, in publication order and without duplicates");
            if let (Some(x), Some(y)) = (last_number, dn) {
                vassert!(x < y, "C22 delivered statuses keep their publication order");
            }
            if dn.is_some() {
                last_number = dn;
            }
            if is_final_kind(dk) {
                seen_final = true;
            }
            count += 1;
            std::mem::forget(m);
        }
        i += 1;
    }
    let tail = st.try_next();
    vassert!(tail.is_none(), "C22 a drained stream delivers nothing more");
    std::mem::forget(tail);
    if seen_final || closed_by_subscriber {
        vassert!(st.is_closed(), "C22 the stream ends after the first final status or after the subscriber closed it");
    }
    // a subscriber that had drained its stream before the publication receives it
    if pending_empty && op == 0 {
        vassert!(count == 1, "C22 a drained subscriber receives the next published status");
        if is_final_kind(k) {
            vassert!(st.is_closed(), "C22 the stream of a drained subscriber ends after the final status");
        } else {
            vassert!(!st.is_closed(), "C22 the stream stays open until a final status");
        }
    }
    if pending_empty && op == 1 {
        vassert!(count == 1 && st.is_closed(), "C22 a drained subscriber is told about a failed status and its stream ends");
    }
    vreach!();
    // no destructor of the buffer or of leftover options is run: their drop glue
    // (payload vectors of every status kind) is dead code here but costs CBMC minutes
    std::mem::forget(first_read);
    std::mem::forget(st);
}

#[cfg(kani)]
mod proofs {
    use super::*;
    use crate::vsrc::KaniSrc;
    macro_rules! proof {
        ($name:ident, $pre:expr, $op:expr, $alt:expr) => {
            #[kani::proof]
            #[kani::stub(std::rt::thread_cleanup, crate::noop)]
            #[kani::unwind(6)]
            fn $name() {
                step::<_, $pre, $op, $alt>(&mut KaniSrc);
            }
        };
    }
    include!("c22_proofs.in");
}

#[cfg(not(kani))]
fn main() {
    vh_txstatus::vsrc::replay_main(vh_txstatus::REPLAY);
}
#[cfg(kani)]
fn main() {}

#[cfg(not(kani))]
fn main() {
    vh_consensus::vsrc::replay_main(vh_consensus::REPLAY);
}
#[cfg(kani)]
fn main() {}

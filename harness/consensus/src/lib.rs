//! Harnesses for the PoA verifier: C15 (only blocks that satisfy the consensus rules are accepted).
#![allow(clippy::all)]

#[path = "../../common/vsrc.rs"]
#[macro_use]
pub mod vsrc;

pub mod c15;

#[cfg(not(kani))]
pub const REPLAY: &[(&str, fn(&mut vsrc::ReplaySrc))] = &[
    ("c15_poa_fields", |s| c15::poa_fields(s)),
    ("c15_genesis_fields", |s| c15::genesis_fields(s)),
    ("c15_try_from_executed", |s| c15::try_from_executed_preserves_header(s)),
];

pub fn noop() {}
pub fn noop_header(_h: &mut fuel_core_types::blockchain::header::BlockHeaderV1) {}
pub fn fmt_stub(_args: std::fmt::Arguments<'_>) -> String {
    String::new()
}
pub fn bt_disabled() -> std::backtrace::Backtrace {
    std::backtrace::Backtrace::disabled()
}

//! C15 — only blocks that satisfy the consensus rules are accepted (field rules).
//!
//! Code under test: the real `fuel_core_poa::verifier::verify_block_fields`
//! reached through the real `block_verifier::Verifier::verify_block_fields`
//! (PoA branch), and the genesis branch of the same function.
//! The two hash computations are CUT under Kani (sha256 / fuel-merkle code makes
//! kani-compiler 0.68 abort): the application-header hash and the
//! transactions-root check return values the harness chooses symbolically, so
//! the acceptance condition is decided for every outcome they could have.
use crate::vsrc::Src;
use fuel_core_chain_config::ConsensusConfig;
use fuel_core_consensus_module::block_verifier::{config::Config, Verifier};
use fuel_core_poa::ports::Database;
use fuel_core_storage::{transactional::AtomicView, Error as StorageError, Result as StorageResult};
use fuel_core_types::{
    blockchain::{
        block::Block,
        consensus::{Consensus, Genesis},
        header::{BlockHeader, BlockHeaderV1},
        primitives::DaBlockHeight,
    },
    fuel_tx::Transaction,
    fuel_types::{Address, BlockHeight, Bytes32},
    tai64::Tai64,
};
use std::sync::atomic::{AtomicU32, AtomicU64, Ordering::Relaxed};

pub static ASKED_ROOT_HEIGHT: AtomicU64 = AtomicU64::new(u64::MAX);
pub static ASKED_HEADER_HEIGHT: AtomicU64 = AtomicU64::new(u64::MAX);
pub static READS: AtomicU32 = AtomicU32::new(0);

#[derive(Clone)]
pub struct MockDb {
    pub root_ok: bool,
    pub root: Bytes32,
    pub header_ok: bool,
    pub parent_da: u64,
    pub parent_time: u64,
}

impl Database for MockDb {
    fn block_header(&self, height: &BlockHeight) -> StorageResult<BlockHeader> {
        ASKED_HEADER_HEIGHT.store(**height as u64, Relaxed);
        READS.fetch_add(1, Relaxed);
        if !self.header_ok {
            return Err(StorageError::NotFound("verif", "header"));
        }
        let mut h = BlockHeader::V1(BlockHeaderV1::default());
        h.consensus_mut().height = *height;
        h.consensus_mut().time = Tai64(self.parent_time);
        h.set_da_height(DaBlockHeight(self.parent_da));
        Ok(h)
    }
    fn block_header_merkle_root(&self, height: &BlockHeight) -> StorageResult<Bytes32> {
        ASKED_ROOT_HEIGHT.store(**height as u64, Relaxed);
        READS.fetch_add(1, Relaxed);
        if self.root_ok { Ok(self.root) } else { Err(StorageError::NotFound("verif", "root")) }
    }
}

pub struct View(pub MockDb);
impl AtomicView for View {
    type LatestView = MockDb;
    fn latest_view(&self) -> StorageResult<MockDb> {
        Ok(self.0.clone())
    }
}

/// Cut values, chosen by the harness (symbolic under Kani).
pub static mut CUT_APP_HASH: [u8; 32] = [0; 32];
pub static mut CUT_TX_VALID: bool = true;
#[cfg(kani)]
pub fn cut_app_hash(_a: &fuel_core_types::blockchain::header::ApplicationHeader<fuel_core_types::blockchain::header::v1::GeneratedApplicationFieldsV1>) -> Bytes32 {
    unsafe { Bytes32::new(CUT_APP_HASH) }
}
#[cfg(kani)]
pub fn cut_validate_transactions(_h: &BlockHeader, _txs: &[Transaction]) -> bool {
    unsafe { CUT_TX_VALID }
}

fn small_bytes32<S: Src>(s: &mut S) -> Bytes32 {
    // two symbolic bytes are enough to make roots equal or different
    let mut b = [0u8; 32];
    b[0] = s.u8();
    b[31] = s.u8();
    Bytes32::new(b)
}

pub fn poa_fields<S: Src>(s: &mut S) {
    let height = s.u32();
    let prev_root = small_bytes32(s);
    let da = s.u64();
    let time = s.u64();
    let app_hash_in_header = small_bytes32(s);
    let db = MockDb {
        root_ok: s.bool(),
        root: small_bytes32(s),
        header_ok: s.bool(),
        parent_da: s.u64(),
        parent_time: s.u64(),
    };
    let cut_hash = small_bytes32(s);
    let cut_valid = s.bool();
    #[cfg(kani)]
    unsafe {
        CUT_APP_HASH = *cut_hash;
        CUT_TX_VALID = cut_valid;
    }
    let mut block = Block::default();
    {
        let h = block.header_mut();
        h.consensus_mut().height = height.into();
        h.consensus_mut().prev_root = prev_root;
        h.consensus_mut().time = Tai64(time);
        h.consensus_mut().generated.application_hash = app_hash_in_header;
        h.set_da_height(DaBlockHeight(da));
        // native replay: the two hash checks are real there, so give the block the
        // hashes of its own content; acceptance then depends on the field rules only
        #[cfg(not(kani))]
        {
            match h {
                BlockHeader::V1(v1) => {
                    v1.application_mut().generated.transactions_root = fuel_core_types::blockchain::header::generate_txns_root(&[]);
                    let real = v1.application().hash();
                    h.consensus_mut().generated.application_hash = real;
                }
            }
        }
    }
    let verifier = Verifier::new(
        Config::new(ConsensusConfig::PoA { signing_key: Address::zeroed() }, 0u32.into(), DaBlockHeight(0)),
        View(db.clone()),
    );
    READS.store(0, Relaxed);
    let r = verifier.verify_block_fields(&Consensus::PoA(Default::default()), &block);

    let rules = height != 0
        && db.root_ok
        && prev_root == db.root
        && db.header_ok
        && da >= db.parent_da
        && time >= db.parent_time;
    if r.is_ok() {
        vassert!(height != 0, "C15 an accepted non-genesis block has a non-zero height");
        vassert!(db.root_ok && prev_root == db.root, "C15 an accepted block's previous root is the block Merkle root of its parent");
        vassert!(db.header_ok && da >= db.parent_da, "C15 an accepted block's DA height does not decrease");
        vassert!(time >= db.parent_time, "C15 an accepted block's timestamp does not decrease");
        vassert!(ASKED_ROOT_HEIGHT.load(Relaxed) == (height - 1) as u64, "C15 the previous root is compared with the root recorded for height - 1");
        vassert!(ASKED_HEADER_HEIGHT.load(Relaxed) == (height - 1) as u64, "C15 DA height and time are compared with the header at height - 1");
    }
    #[cfg(kani)]
    {
        // with the two hash cuts the acceptance condition is exact
        let expect = rules && app_hash_in_header == cut_hash && cut_valid;
        vassert!(r.is_ok() == expect, "C15 a block is accepted exactly when every field rule holds (hash comparisons cut)");
    }
    #[cfg(not(kani))]
    {
        if !rules {
            vassert!(r.is_err(), "C15 a block that breaks a field rule is rejected");
        }
        let _ = (cut_hash, cut_valid);
    }
    vreach!();
    vreach!(r.is_ok(), "C15 acceptance reachable");
    std::mem::forget(r);
    std::mem::forget(block);
}

pub fn genesis_fields<S: Src>(s: &mut S) {
    let height = s.u32();
    let prev_root = small_bytes32(s);
    let da = s.u64();
    let time = s.u64();
    let cfg_height = s.u32();
    let cfg_da = s.u64();
    let db = MockDb { root_ok: false, root: Bytes32::zeroed(), header_ok: false, parent_da: 0, parent_time: 0 };
    let mut block = Block::default();
    {
        let h = block.header_mut();
        h.consensus_mut().height = height.into();
        h.consensus_mut().prev_root = prev_root;
        h.consensus_mut().time = Tai64(time);
        h.set_da_height(DaBlockHeight(da));
    }
    let verifier = Verifier::new(
        Config::new(ConsensusConfig::PoA { signing_key: Address::zeroed() }, cfg_height.into(), DaBlockHeight(cfg_da)),
        View(db),
    );
    READS.store(0, Relaxed);
    let r = verifier.verify_block_fields(&Consensus::Genesis(Genesis::default()), &block);
    let rules = prev_root == Bytes32::zeroed() && Tai64(time) == Tai64::UNIX_EPOCH && da == cfg_da && height == cfg_height;
    vassert!(r.is_ok() == rules, "C15 a genesis block is accepted exactly when it has a zero previous root, epoch time and the configured heights");
    vassert!(READS.load(Relaxed) == 0, "C15 genesis verification does not consult the database");
    vreach!();
    vreach!(r.is_ok(), "C15 genesis acceptance reachable");
    std::mem::forget(r);
    std::mem::forget(block);
}

/// `Block::try_from_executed` is how a header received from the network becomes a
/// block before it is verified (sync path). It must hand the header on exactly as
/// received: if it normalised a field (e.g. recomputed the application hash), a
/// header whose hash does not match its content would pass the later check.
/// Cuts under Kani: the transaction-root check returns a symbolic verdict and the
/// two hash functions return arbitrary values (so any recomputation shows).
pub fn try_from_executed_preserves_header<S: Src>(s: &mut S) {
    let height = s.u32();
    let prev_root = small_bytes32(s);
    let da = s.u64();
    let time = s.u64();
    let app_hash = small_bytes32(s);
    let cut_hash = small_bytes32(s);
    let cut_valid = s.bool();
    #[cfg(kani)]
    unsafe {
        CUT_APP_HASH = *cut_hash;
        CUT_TX_VALID = cut_valid;
    }
    let mut header = BlockHeader::V1(BlockHeaderV1::default());
    header.consensus_mut().height = height.into();
    header.consensus_mut().prev_root = prev_root;
    header.consensus_mut().time = Tai64(time);
    header.consensus_mut().generated.application_hash = app_hash;
    match &mut header {
        BlockHeader::V1(h) => {
            h.application_mut().da_height = DaBlockHeight(da);
            // native replay: the real transaction-root check runs, so give the header
            // the root of its (empty) transaction list
            #[cfg(not(kani))]
            {
                h.application_mut().generated.transactions_root = fuel_core_types::blockchain::header::generate_txns_root(&[]);
            }
        }
    }
    let txs: Vec<Transaction> = Vec::with_capacity(1);
    let r = Block::try_from_executed(header.clone(), txs);
    #[cfg(kani)]
    vassert!(r.is_some() == cut_valid, "C15 a block is built from a received header exactly when its transactions match the header");
    if let Some(block) = &r {
        let h = block.header();
        vassert!(h.application_hash() == &app_hash, "C15 the application hash of a received header is handed on unchanged");
        vassert!(*h.height() == height.into() && h.prev_root() == &prev_root && h.time() == Tai64(time) && h.da_height() == DaBlockHeight(da),
            "C15 the fields of a received header are handed on unchanged");
        vassert!(*h == header, "C15 a received header is handed on unchanged");
    }
    let _ = cut_hash;
    vreach!();
    vreach!(r.is_some(), "C15 conversion of a matching header reachable");
    std::mem::forget(r);
    std::mem::forget(header);
}

#[cfg(kani)]
pub fn cut_header_id(_h: &BlockHeaderV1) -> fuel_core_types::blockchain::primitives::BlockId {
    let mut b = [0u8; 32];
    b[3] = kani::any();
    fuel_core_types::blockchain::primitives::BlockId::from(Bytes32::new(b))
}

#[cfg(kani)]
mod proofs {
    use super::*;
    use crate::vsrc::KaniSrc;
    macro_rules! proof {
        ($name:ident, $body:expr) => {
            #[kani::proof]
            #[kani::stub(std::rt::thread_cleanup, crate::noop)]
            #[kani::stub(fuel_core_types::blockchain::header::BlockHeaderV1::recalculate_metadata, crate::noop_header)]
            #[kani::stub(fuel_core_types::blockchain::header::ApplicationHeader::<fuel_core_types::blockchain::header::v1::GeneratedApplicationFieldsV1>::hash, cut_app_hash)]
            #[kani::stub(fuel_core_types::blockchain::header::BlockHeader::validate_transactions, cut_validate_transactions)]
            #[kani::stub(std::fmt::format, crate::fmt_stub)]
            #[kani::stub(std::backtrace::Backtrace::capture, crate::bt_disabled)]
            #[kani::unwind(34)]
            fn $name() {
                $body(&mut KaniSrc);
            }
        };
    }
    proof!(c15_poa_fields, poa_fields);
    proof!(c15_genesis_fields, genesis_fields);

    // here `recalculate_metadata` stays REAL (a recomputation must be visible);
    // only the hash functions underneath it are cut
    #[kani::proof]
    #[kani::stub(std::rt::thread_cleanup, crate::noop)]
    #[kani::stub(fuel_core_types::blockchain::header::ApplicationHeader::<fuel_core_types::blockchain::header::v1::GeneratedApplicationFieldsV1>::hash, cut_app_hash)]
    #[kani::stub(fuel_core_types::blockchain::header::BlockHeader::validate_transactions, cut_validate_transactions)]
    #[kani::stub(fuel_core_types::blockchain::header::BlockHeaderV1::hash, cut_header_id)]
    #[kani::stub(std::fmt::format, crate::fmt_stub)]
    #[kani::stub(std::backtrace::Backtrace::capture, crate::bt_disabled)]
    #[kani::unwind(34)]
    fn c15_try_from_executed() {
        try_from_executed_preserves_header(&mut KaniSrc);
    }
}

//! C08 — the importer only commits the next unique block: admission rule.
//!
//! Code under test: the real private `importer::create_block_changes` (through
//! the feature-gated forwarder), i.e. the decision taken for every block before
//! anything is committed. The database and its transaction are mocks whose
//! answers are symbolic; the mock counts commits.
use crate::vsrc::Src;
use fuel_core_importer::{
    error::Error,
    importer::verif_create_block_changes,
    ports::{DatabaseTransaction, ImporterDatabase, Transactional},
};
use fuel_core_storage::{
    transactional::{Changes, StorageChanges},
    Error as StorageError, MerkleRoot, Result as StorageResult,
};
use fuel_core_types::{
    blockchain::{
        block::Block,
        consensus::{Consensus, Genesis, Sealed},
        SealedBlock,
    },
    fuel_types::{BlockHeight, ChainId},
};
use std::sync::atomic::{AtomicU32, Ordering::Relaxed};

pub struct MockDb {
    /// 0 = Ok(None), 1 = Ok(Some(h)), 2 = Err
    pub height_kind: u8,
    pub height: u32,
    /// 0 = Ok(true), 1 = Ok(false), 2 = Err
    pub store_kind: u8,
    pub commits: AtomicU32,
    pub height_reads: AtomicU32,
    pub stores: AtomicU32,
}

pub struct MockTx<'a> {
    db: &'a MockDb,
    changes: Changes,
}

fn storage_err() -> StorageError {
    StorageError::NotFound("verif", "mock")
}

impl ImporterDatabase for MockDb {
    fn latest_block_height(&self) -> StorageResult<Option<BlockHeight>> {
        self.height_reads.fetch_add(1, Relaxed);
        match self.height_kind {
            0 => Ok(None),
            1 => Ok(Some(self.height.into())),
            _ => Err(storage_err()),
        }
    }
    fn latest_block_root(&self) -> StorageResult<Option<MerkleRoot>> {
        Ok(None)
    }
    fn commit_changes(&mut self, _changes: StorageChanges) -> StorageResult<()> {
        self.commits.fetch_add(1, Relaxed);
        Ok(())
    }
}

impl Transactional for MockDb {
    type Transaction<'a> = MockTx<'a>;
    fn storage_transaction(&self, changes: Changes) -> MockTx<'_> {
        MockTx { db: self, changes }
    }
}

impl<'a> DatabaseTransaction for MockTx<'a> {
    fn latest_block_root(&self) -> StorageResult<Option<MerkleRoot>> {
        Ok(None)
    }
    fn store_new_block(&mut self, _chain_id: &ChainId, _block: &SealedBlock) -> StorageResult<bool> {
        self.db.stores.fetch_add(1, Relaxed);
        match self.db.store_kind {
            0 => Ok(true),
            1 => Ok(false),
            _ => Err(storage_err()),
        }
    }
    fn into_changes(self) -> Changes {
        self.changes
    }
}

pub fn admission<S: Src, const GENESIS: bool>(s: &mut S) {
    let block_height = s.u32();
    let genesis = GENESIS;
    let db = MockDb {
        height_kind: s.u8() % 3,
        height: s.u32(),
        store_kind: s.u8() % 3,
        commits: AtomicU32::new(0),
        height_reads: AtomicU32::new(0),
        stores: AtomicU32::new(0),
    };
    let mut block = Block::default();
    block.header_mut().consensus_mut().height = block_height.into();
    let consensus = if genesis { Consensus::Genesis(Genesis::default()) } else { Consensus::PoA(Default::default()) };
    let sealed: SealedBlock = Sealed { entity: block, consensus };

    let r = verif_create_block_changes(&ChainId::default(), &sealed, &db);

    // the rule, from the statement
    let next_ok = if genesis {
        db.height_kind == 0
    } else {
        block_height != 0 && db.height_kind == 1 && db.height != u32::MAX && block_height == db.height + 1
    };
    let admitted = next_ok && db.store_kind == 0;
    vassert!(r.is_ok() == admitted, "C08 a block is prepared for commit exactly when it is the next unique block (or genesis on an empty database)");
    match &r {
        Ok(_) => {}
        Err(e) => {
            if next_ok && db.store_kind == 1 {
                vassert!(matches!(e, Error::NotUnique(_)), "C08 an already stored block is rejected as not unique");
            }
            if !genesis && db.height_kind == 1 && block_height != 0 && db.height == u32::MAX {
                vassert!(matches!(e, Error::Overflow), "C08 no block follows the maximal height");
            }
            if !genesis && block_height == 0 {
                vassert!(matches!(e, Error::ZeroNonGenericHeight), "C08 a non-genesis block at height zero is rejected");
            }
            if genesis && db.height_kind == 1 {
                vassert!(matches!(e, Error::InvalidUnderlyingDatabaseGenesisState), "C08 genesis on a non-empty database is rejected");
            }
            if !genesis && db.height_kind == 1 && block_height != 0 && db.height != u32::MAX && block_height != db.height + 1 {
                vassert!(matches!(e, Error::IncorrectBlockHeight(_, _)), "C08 a block that is not the next height is rejected");
            }
        }
    }
    if !next_ok {
        vassert!(db.stores.load(Relaxed) == 0, "C08 nothing is written for a block at the wrong height");
    }
    vassert!(db.commits.load(Relaxed) == 0, "C08 preparing an import never commits; a failed import leaves the database unchanged");
    vreach!();
    vreach!(r.is_ok(), "C08 admission reachable");
    std::mem::forget(r);
    std::mem::forget(sealed);
}

#[cfg(kani)]
mod proofs {
    use super::*;
    use crate::vsrc::KaniSrc;
    macro_rules! proof {
        ($name:ident, $g:expr) => {
            #[kani::proof]
            #[kani::stub(std::rt::thread_cleanup, crate::noop)]
            #[kani::stub(fuel_core_types::blockchain::header::BlockHeaderV1::recalculate_metadata, crate::noop_header)]
            #[kani::stub(std::fmt::format, crate::fmt_stub)]
            #[kani::stub(std::backtrace::Backtrace::capture, crate::bt_disabled)]
            #[kani::stub(std::hash::RandomState::new, crate::fixed_random_state)]
            #[kani::unwind(4)]
            fn $name() {
                admission::<_, $g>(&mut KaniSrc);
            }
        };
    }
    proof!(c08_admission_poa, false);
    proof!(c08_admission_genesis, true);
}

//! Harnesses for fuel-core-importer: C08 (only the next unique block is committed) — admission kernel.
#![allow(clippy::all)]

#[path = "../../common/vsrc.rs"]
#[macro_use]
pub mod vsrc;

pub mod c08;

#[cfg(not(kani))]
pub const REPLAY: &[(&str, fn(&mut vsrc::ReplaySrc))] = &[
    ("c08_admission_poa", |s| c08::admission::<_, false>(s)),
    ("c08_admission_genesis", |s| c08::admission::<_, true>(s)),
];

pub fn noop() {}
pub fn noop_header(_h: &mut fuel_core_types::blockchain::header::BlockHeaderV1) {}
pub fn fmt_stub(_args: std::fmt::Arguments<'_>) -> String {
    String::new()
}
pub fn bt_disabled() -> std::backtrace::Backtrace {
    std::backtrace::Backtrace::disabled()
}
/// Stub target for `RandomState::new` (reads OS randomness): fixed keys. The
/// `Changes` map is only created and moved by the code under test.
pub fn fixed_random_state() -> std::hash::RandomState {
    unsafe { std::mem::transmute::<(u64, u64), std::hash::RandomState>((0, 0)) }
}

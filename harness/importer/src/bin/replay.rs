#[cfg(not(kani))]
fn main() {
    vh_importer::vsrc::replay_main(vh_importer::REPLAY);
}
#[cfg(kani)]
fn main() {}

//! Shared by every harness crate (included with `#[path]`).
//!
//! A harness body is written once, generic over a value source:
//! * under `cargo kani` the source is `KaniSrc` — every draw is `kani::any()`,
//!   i.e. a fresh symbolic variable, and the solver decides the body's
//!   assertions for all values;
//! * in the native replay binary the source is `ReplaySrc` — the byte vectors
//!   Kani's concrete playback printed for a counterexample, fed back in the
//!   same order into the same body compiled by the ordinary rustc.
//!
//! Only primitives are drawn (one recorded byte vector each), so the order and
//! the widths of the recorded values can be checked during replay.
#![allow(dead_code, unused_macros)]

pub trait Src {
    fn u8(&mut self) -> u8;
    fn u16(&mut self) -> u16;
    fn u32(&mut self) -> u32;
    fn u64(&mut self) -> u64;
    fn u128(&mut self) -> u128;
    fn i128(&mut self) -> i128;
    fn bool(&mut self) -> bool;
    fn opt_u32(&mut self) -> Option<u32> {
        if self.bool() { Some(self.u32()) } else { None }
    }
}

#[cfg(kani)]
pub struct KaniSrc;

#[cfg(kani)]
impl Src for KaniSrc {
    fn u8(&mut self) -> u8 { kani::any() }
    fn u16(&mut self) -> u16 { kani::any() }
    fn u32(&mut self) -> u32 { kani::any() }
    fn u64(&mut self) -> u64 { kani::any() }
    fn u128(&mut self) -> u128 { kani::any() }
    fn i128(&mut self) -> i128 { kani::any() }
    fn bool(&mut self) -> bool { kani::any() }
}

/// Replay INSIDE the model checker (used where a native replay is impossible:
/// C42's counterexamples are thread schedules). With the harness crate's feature
/// `kreplay` the values Kani printed for a counterexample are compiled in
/// (`kreplay_values.in`) and every draw — of the harness body and of the
/// environment — returns the next recorded value, so CBMC executes exactly that
/// one run of the real code with the same stubs.
#[cfg(all(kani, feature = "kreplay"))]
pub mod kreplay {
    pub static VALUES: &[&[u8]] = include!(concat!(env!("CARGO_MANIFEST_DIR"), "/src/kreplay_values.in"));
    pub static mut POS: usize = 0;
    pub fn next<const N: usize>() -> [u8; N] {
        unsafe {
            let p = *std::ptr::addr_of!(POS);
            *std::ptr::addr_of_mut!(POS) = p + 1;
            let mut a = [0u8; N];
            if p < VALUES.len() && VALUES[p].len() == N {
                let mut i = 0;
                while i < N {
                    a[i] = VALUES[p][i];
                    i += 1;
                }
            } else {
                // recorded values do not fit this run: make the replay vacuous
                kani::assume(false);
            }
            a
        }
    }
}

/// Draws made by environment models (schedulers) outside a harness body.
#[cfg(all(kani, not(feature = "kreplay")))]
pub fn env_u32() -> u32 {
    kani::any()
}
#[cfg(all(kani, not(feature = "kreplay")))]
pub fn env_bool() -> bool {
    kani::any()
}
#[cfg(all(kani, feature = "kreplay"))]
pub fn env_u32() -> u32 {
    u32::from_le_bytes(kreplay::next::<4>())
}
#[cfg(all(kani, feature = "kreplay"))]
pub fn env_bool() -> bool {
    kreplay::next::<1>()[0] != 0
}

#[cfg(all(kani, feature = "kreplay"))]
pub struct FixedSrc;
#[cfg(all(kani, feature = "kreplay"))]
impl Src for FixedSrc {
    fn u8(&mut self) -> u8 { kreplay::next::<1>()[0] }
    fn u16(&mut self) -> u16 { u16::from_le_bytes(kreplay::next::<2>()) }
    fn u32(&mut self) -> u32 { u32::from_le_bytes(kreplay::next::<4>()) }
    fn u64(&mut self) -> u64 { u64::from_le_bytes(kreplay::next::<8>()) }
    fn u128(&mut self) -> u128 { u128::from_le_bytes(kreplay::next::<16>()) }
    fn i128(&mut self) -> i128 { i128::from_le_bytes(kreplay::next::<16>()) }
    fn bool(&mut self) -> bool { kreplay::next::<1>()[0] != 0 }
}

/// Exit code of the replay binary when the recorded values do not fit the
/// body (wrong width / ran out / assumption false): the replay is inconclusive.
pub const REPLAY_DESYNC: i32 = 3;

#[cfg(not(kani))]
pub struct ReplaySrc {
    pub vals: std::collections::VecDeque<Vec<u8>>,
    pub drawn: usize,
}

#[cfg(not(kani))]
impl ReplaySrc {
    pub fn new(vals: Vec<Vec<u8>>) -> Self {
        Self { vals: vals.into(), drawn: 0 }
    }
    fn take<const N: usize>(&mut self) -> [u8; N] {
        match self.vals.pop_front() {
            Some(v) if v.len() == N => {
                self.drawn += 1;
                let mut a = [0u8; N];
                a.copy_from_slice(&v);
                a
            }
            other => {
                eprintln!(
                    "REPLAY-DESYNC: draw #{} wants {} bytes, recorded {:?}",
                    self.drawn, N, other
                );
                std::process::exit(REPLAY_DESYNC);
            }
        }
    }
}

#[cfg(not(kani))]
impl Src for ReplaySrc {
    fn u8(&mut self) -> u8 { u8::from_le_bytes(self.take::<1>()) }
    fn u16(&mut self) -> u16 { u16::from_le_bytes(self.take::<2>()) }
    fn u32(&mut self) -> u32 { u32::from_le_bytes(self.take::<4>()) }
    fn u64(&mut self) -> u64 { u64::from_le_bytes(self.take::<8>()) }
    fn u128(&mut self) -> u128 { u128::from_le_bytes(self.take::<16>()) }
    fn i128(&mut self) -> i128 { i128::from_le_bytes(self.take::<16>()) }
    fn bool(&mut self) -> bool { self.take::<1>()[0] != 0 }
}

/// `kani::assume` under Kani; natively a false assumption means the recorded
/// values do not drive this body (inconclusive replay).
#[macro_export]
macro_rules! vassume {
    ($c:expr) => {{
        #[cfg(kani)]
        kani::assume($c);
        #[cfg(not(kani))]
        if !($c) {
            eprintln!("REPLAY-DESYNC: assumption false: {}", stringify!($c));
            std::process::exit(3);
        }
    }};
}

/// Vacuity witness: must be reported SATISFIED by Kani for the run to count.
#[macro_export]
macro_rules! vreach {
    () => {{
        #[cfg(kani)]
        kani::cover!(true, "VREACH end of harness body reachable");
    }};
    ($c:expr, $m:literal) => {{
        #[cfg(kani)]
        kani::cover!($c, $m);
    }};
}

/// Property assertion; the message becomes the violation description.
#[macro_export]
macro_rules! vassert {
    ($c:expr, $m:literal) => {{
        assert!($c, $m);
    }};
}

/// Replay entry: `replay <harness> <values.json>` where the JSON is
/// `[[b,b,..],[..],..]`. Exit 0 = body ran to the end (not reproduced), 101 =
/// panic (reproduced), 3 = desync.
#[cfg(not(kani))]
pub fn replay_main(table: &[(&str, fn(&mut ReplaySrc))]) {
    let args: Vec<String> = std::env::args().collect();
    if args.len() == 2 && args[1] == "--list" {
        for (n, _) in table {
            println!("{n}");
        }
        return;
    }
    if args.len() != 3 {
        eprintln!("usage: replay <harness> <values.json> | --list");
        std::process::exit(2);
    }
    let text = std::fs::read_to_string(&args[2]).expect("read values");
    let vals = parse_values(&text);
    let Some((_, f)) = table.iter().find(|(n, _)| *n == args[1]) else {
        eprintln!("unknown harness {}", args[1]);
        std::process::exit(2);
    };
    let mut src = ReplaySrc::new(vals);
    f(&mut src);
    println!("REPLAY-COMPLETED: body ran to the end without a failed assertion ({} values drawn)", src.drawn);
}

/// Minimal parser for `[[1,2],[3]]` (no dependency on serde in harness crates).
#[cfg(not(kani))]
pub fn parse_values(text: &str) -> Vec<Vec<u8>> {
    let mut out = Vec::new();
    let mut cur: Option<Vec<u8>> = None;
    let mut num: Option<u32> = None;
    let mut depth = 0;
    for ch in text.chars() {
        match ch {
            '[' => {
                depth += 1;
                if depth == 2 {
                    cur = Some(Vec::new());
                }
            }
            ']' => {
                if let (Some(n), Some(c)) = (num.take(), cur.as_mut()) {
                    c.push(n as u8);
                }
                if depth == 2 {
                    out.push(cur.take().unwrap());
                }
                depth -= 1;
            }
            ',' => {
                if let (Some(n), Some(c)) = (num.take(), cur.as_mut()) {
                    c.push(n as u8);
                }
            }
            d if d.is_ascii_digit() => {
                num = Some(num.unwrap_or(0) * 10 + d.to_digit(10).unwrap());
            }
            _ => {}
        }
    }
    out
}

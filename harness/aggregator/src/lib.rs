//! Harnesses for fuel-core-block-aggregator-api: C43 (conversions preserve blocks) — headers and receipts.
#![allow(clippy::all)]

#[path = "../../common/vsrc.rs"]
#[macro_use]
pub mod vsrc;

pub mod c43;

#[cfg(not(kani))]
pub const REPLAY: &[(&str, fn(&mut vsrc::ReplaySrc))] = &[
    ("c43_header_roundtrip", |s| c43::header_roundtrip(s)),
];

pub fn noop() {}
pub fn fmt_stub(_args: std::fmt::Arguments<'_>) -> String {
    String::new()
}
pub fn bt_disabled() -> std::backtrace::Backtrace {
    std::backtrace::Backtrace::disabled()
}

#[cfg(not(kani))]
fn main() {
    vh_aggregator::vsrc::replay_main(vh_aggregator::REPLAY);
}
#[cfg(kani)]
fn main() {}

//! C43 — block aggregator conversions preserve blocks: header fields.
use crate::vsrc::Src;
use fuel_core_block_aggregator_api::blocks::old_block_source::convertor_adapter::{
    fuel_to_proto_conversions::proto_header_from_header,
    proto_to_fuel_conversions::partial_header_from_proto_header,
};
use fuel_core_types::{
    blockchain::{
        header::{BlockHeader, BlockHeaderV1},
        primitives::{BlockId, DaBlockHeight},
    },
    fuel_types::Bytes32,
    tai64::Tai64,
};

fn b32<S: Src>(s: &mut S) -> Bytes32 {
    let mut b = [0u8; 32];
    b[0] = s.u8();
    b[17] = s.u8();
    b[31] = s.u8();
    Bytes32::new(b)
}

/// header -> protobuf -> partial header keeps every field the partial header has.
pub fn header_roundtrip<S: Src>(s: &mut S) {
    let mut v1 = BlockHeaderV1::default();
    let da = s.u64();
    let cpv = s.u32();
    let stf = s.u32();
    let height = s.u32();
    let time = s.u64();
    let prev_root = b32(s);
    let inbox = b32(s);
    {
        let app = v1.application_mut();
        app.da_height = DaBlockHeight(da);
        app.consensus_parameters_version = cpv;
        app.state_transition_bytecode_version = stf;
        app.generated.event_inbox_root = inbox;
        app.generated.transactions_count = s.u16();
        app.generated.message_receipt_count = s.u32();
    }
    let mut header = BlockHeader::V1(v1);
    header.consensus_mut().height = height.into();
    header.consensus_mut().time = Tai64(time);
    header.consensus_mut().prev_root = prev_root;
    let proto = proto_header_from_header(&header);
    let back = partial_header_from_proto_header(&proto);
    match &back {
        Err(_) => vassert!(false, "C43 a converted header converts back"),
        Ok((partial, root)) => {
            vassert!(partial.consensus.height == height.into(), "C43 the height survives the round trip");
            vassert!(partial.consensus.time == Tai64(time), "C43 the time survives the round trip");
            vassert!(partial.consensus.prev_root == prev_root, "C43 the previous root survives the round trip");
            vassert!(partial.application.da_height == DaBlockHeight(da), "C43 the DA height survives the round trip");
            vassert!(partial.application.consensus_parameters_version == cpv, "C43 the consensus parameters version survives the round trip");
            vassert!(partial.application.state_transition_bytecode_version == stf, "C43 the state transition version survives the round trip");
            vassert!(*root == inbox, "C43 the event inbox root survives the round trip");
        }
    }
    vreach!();
    std::mem::forget(back);
    std::mem::forget(proto);
}

#[cfg(kani)]
pub fn any_block_id(_h: &BlockHeaderV1) -> BlockId {
    let mut b = [0u8; 32];
    b[0] = kani::any();
    BlockId::from(Bytes32::new(b))
}

#[cfg(kani)]
mod proofs {
    use super::*;
    use crate::vsrc::KaniSrc;
    #[kani::proof]
    #[kani::stub(std::rt::thread_cleanup, crate::noop)]
    #[kani::stub(fuel_core_types::blockchain::header::BlockHeaderV1::hash, any_block_id)]
    #[kani::stub(std::fmt::format, crate::fmt_stub)]
    #[kani::stub(std::backtrace::Backtrace::capture, crate::bt_disabled)]
    #[kani::unwind(34)]
    fn c43_header_roundtrip() {
        header_roundtrip(&mut KaniSrc);
    }
}

//! C42 — sequence-lock readers only see complete, recent values (sequential
//! consistency; Kani is single-threaded, so the schedule is data).
//!
//! Reader harness: the REAL `SeqLockReader::read` runs. Under Kani its two
//! atomic loads, its fences and `thread::yield_now` are stubbed to perform the
//! operation and, before it, let an ENVIRONMENT WRITER take an arbitrary number
//! of steps. The environment performs exactly the memory effects of the real
//! `SeqLockWriter::write` as four separate steps (sequence+1, data half 1, data
//! half 2, sequence+1) on the real lock's memory. That the real writer performs
//! exactly these effects in this order is what `writer_trace` decides.
use crate::vsrc::Src;
use fuel_core_services::seqlock::SeqLock;
use std::sync::atomic::{AtomicU64, Ordering};

macro_rules! seqlock_env {
    ($m:ident, $half:ty) => {
    pub mod $m {
        use super::*;
        pub type Half = $half;
                pub type Pair = ($half, $half);

        /// Environment writer: W writes of equal-halves values v[0], v[1].
        pub struct Env {
            pub seq: *const AtomicU64,
            pub data: *mut Pair,
            pub pc: u32,       // steps taken so far (4 per write)
            pub total: u32,    // 4 * number of writes
            pub vals: [Half; 2],
            pub enabled: bool,
            pub budget: u32,   // remaining scheduling points at which the writer may move
            pub maxstep: u32,  // writer steps per scheduling point
        }
        pub static mut ENV: Env = Env { seq: std::ptr::null(), data: std::ptr::null_mut(), pc: 0, total: 0, vals: [0; 2], enabled: false, budget: 0, maxstep: 4 };

        /// One writer step on the real lock memory.
        unsafe fn env_step() {
            unsafe {
                let e = &mut *std::ptr::addr_of_mut!(ENV);
                let w = (e.pc / 4) as usize;
                match e.pc % 4 {
                    0 | 3 => {
                        let s = &*e.seq;
                        let cur = *s.as_ptr();
                        *s.as_ptr() = cur + 1;
                    }
                    1 => (*e.data).0 = e.vals[w],
                    _ => (*e.data).1 = e.vals[w],
                }
                e.pc += 1;
            }
        }

        /// At a scheduling point the writer takes 0..=4 further steps.
        #[cfg(kani)]
        pub fn env_run() {
            unsafe {
                let e = &mut *std::ptr::addr_of_mut!(ENV);
                if !e.enabled {
                    return;
                }
                if e.budget == 0 {
                    // fairness: a writer that started a write finishes it
                    let mut i = 0;
                    while i < 3 {
                        if e.pc % 4 != 0 {
                            env_step();
                        }
                        i += 1;
                    }
                    return;
                }
                e.budget -= 1;
                if e.maxstep == 1 {
                    // stalling writer: at most one step per scheduling point
                    let go: bool = crate::vsrc::env_bool();
                    if go && e.pc < e.total {
                        env_step();
                    }
                    return;
                }
                let n: u32 = crate::vsrc::env_u32();
                kani::assume(n <= e.maxstep);
                let mut i = 0;
                while i < 4 {
                    if i < n && e.pc < e.total {
                        env_step();
                    }
                    i += 1;
                }
            }
        }

        #[cfg(kani)]
        pub fn load_stub(a: &AtomicU64, _o: Ordering) -> u64 {
            env_run();
            unsafe { *a.as_ptr() }
        }
        #[cfg(kani)]
        pub fn fence_stub(_o: Ordering) {
            env_run();
        }
        #[cfg(kani)]
        pub fn yield_stub() {
            env_run();
        }

        /// W writes race with one read. The reader may be made to retry; it returns
        /// within the scheduling budget because the writer runs out of steps.
        pub fn reader<S: Src, const W: u32, const BUDGET: u32, const MAXSTEP: u32>(s: &mut S) {
            let init = s.u64() as Half;
            let v0 = s.u64() as Half;
            let v1 = s.u64() as Half;
            vassume!(init != v0 && v0 != v1 && init != v1);
            let (_writer, reader) = unsafe { SeqLock::new((init, init)) };
            let (seq, data) = reader.verif_parts();
            let pre_steps = s.u32(); // writer progress before the read starts
            vassume!(pre_steps <= 4 * W);
            unsafe {
                let e = &mut *std::ptr::addr_of_mut!(ENV);
                e.seq = seq as *const AtomicU64;
                e.data = data;
                e.pc = 0;
                e.total = 4 * W;
                e.vals = [v0, v1];
                e.enabled = false;
                e.budget = 0;
                let mut i = 0;
                while i < 4 * W {
                    if i < pre_steps {
                        env_step();
                    }
                    i += 1;
                }
                // a read that starts in the middle of a write can only return after that
                // write finished: give the writer enough scheduling points
                e.enabled = true;
                e.budget = BUDGET;
                e.maxstep = MAXSTEP;
            }
            let completed_before = pre_steps / 4;
            #[cfg(not(kani))]
            unsafe {
                // native replay: no concurrent writer; finish the write in progress
                while ENV.pc % 4 != 0 {
                    env_step();
                }
            }
            let (a, b) = reader.read();
            unsafe {
                (*std::ptr::addr_of_mut!(ENV)).enabled = false;
            }
            vassert!(a == b, "C42 a reader never returns an intermediate state of a write (torn value)");
            let idx: u32 = if a == init { 0 } else if a == v0 { 1 } else if a == v1 && W >= 2 { 2 } else { 99 };
            vassert!(idx != 99, "C42 a reader returns a value that some writer completely wrote");
            vassert!(idx >= completed_before, "C42 a reader never returns a value older than the last write completed before the read started");
            let done_now = unsafe { (*std::ptr::addr_of!(ENV)).pc } / 4;
            vassert!(idx <= done_now + 1, "C42 a reader never returns a value that was not written yet");
            vreach!();
            vreach!(idx == W, "C42 reading the last written value reachable");
            std::mem::forget(reader);
            std::mem::forget(_writer);
        }

    }
    };
}
seqlock_env!(h64, u64);
seqlock_env!(h32, u32);
pub use h64::Pair;

/// The real writer's memory effects, in order: sequence+1, data, sequence+1,
/// leaving sequence even and increased by two.
pub static mut TRACE: [u8; 8] = [0; 8];
pub static mut TRACE_N: usize = 0;
fn trace(x: u8) {
    unsafe {
        let n = *std::ptr::addr_of!(TRACE_N);
        if n < 8 {
            (*std::ptr::addr_of_mut!(TRACE))[n] = x;
        }
        *std::ptr::addr_of_mut!(TRACE_N) = n + 1;
    }
}
#[cfg(kani)]
pub fn fetch_add_stub(a: &AtomicU64, v: u64, _o: Ordering) -> u64 {
    trace(1);
    unsafe {
        let cur = *a.as_ptr();
        *a.as_ptr() = cur.wrapping_add(v);
        cur
    }
}
#[cfg(kani)]
pub fn fence_trace_stub(_o: Ordering) {
    trace(9);
}

pub fn writer_trace<S: Src>(s: &mut S) {
    let init = s.u64();
    let v = s.u64();
    let (writer, reader) = unsafe { SeqLock::new((init, init)) };
    let (seq, data) = reader.verif_parts();
    let seq0 = unsafe { *seq.as_ptr() };
    unsafe {
        *std::ptr::addr_of_mut!(TRACE_N) = 0;
    }
    writer.write(move |d: &mut Pair| {
        trace(2);
        d.0 = v;
        trace(3);
        d.1 = v;
    });
    let seq1 = unsafe { *seq.as_ptr() };
    vassert!(seq0 % 2 == 0 && seq1 == seq0 + 2, "C42 a write leaves the sequence even and two higher");
    vassert!(unsafe { *data } == (v, v), "C42 a completed write is fully visible");
    #[cfg(kani)]
    {
        let t = unsafe { *std::ptr::addr_of!(TRACE) };
        let n = unsafe { *std::ptr::addr_of!(TRACE_N) };
        // 1 = sequence increment, 9 = fence, 2/3 = the two data halves
        vassert!(n == 6 && t[0] == 1 && t[1] == 9 && t[2] == 2 && t[3] == 3 && t[4] == 9 && t[5] == 1,
            "C42 the writer increments the sequence, fences, writes the data, fences and increments again (the order the environment writer replays)");
    }
    vreach!();
    std::mem::forget(reader);
    std::mem::forget(writer);
}

#[cfg(kani)]
mod proofs {
    use super::*;
    use crate::vsrc::KaniSrc;
    use std::panic::catch_unwind as cu;

    pub fn cu_stub<F: FnOnce() -> R + std::panic::UnwindSafe, R>(f: F) -> std::thread::Result<R> {
        Ok(f())
    }

    macro_rules! reader_proof {
        ($name:ident, $m:ident, $w:expr, $budget:expr, $maxstep:expr, $unwind:expr) => {
            #[kani::proof]
            #[kani::stub(std::rt::thread_cleanup, crate::noop)]
            #[kani::stub(std::sync::atomic::Atomic::<u64>::load, $m::load_stub)]
            #[kani::stub(std::sync::atomic::fence, $m::fence_stub)]
            #[kani::stub(std::thread::yield_now, $m::yield_stub)]
            #[kani::unwind($unwind)]
            #[cfg(not(feature = "kreplay"))]
            fn $name() {
                $m::reader::<_, $w, $budget, $maxstep>(&mut KaniSrc);
            }
            /// the same harness on the recorded values (replay inside the model checker)
            #[kani::proof]
            #[kani::stub(std::rt::thread_cleanup, crate::noop)]
            #[kani::stub(std::sync::atomic::Atomic::<u64>::load, $m::load_stub)]
            #[kani::stub(std::sync::atomic::fence, $m::fence_stub)]
            #[kani::stub(std::thread::yield_now, $m::yield_stub)]
            #[kani::unwind($unwind)]
            #[cfg(feature = "kreplay")]
            fn $name() {
                $m::reader::<_, $w, $budget, $maxstep>(&mut crate::vsrc::FixedSrc);
            }
        };
    }
    // T = (u64, u64)
    reader_proof!(c42_reader_w1, h64, 1, 8, 4, 9);
    reader_proof!(c42_reader_w2, h64, 2, 8, 4, 9);
    // T = (u32, u32): a value that fits in one machine word
    reader_proof!(c42_reader32_w1, h32, 1, 8, 4, 9);

    #[kani::proof]
    #[kani::stub(std::rt::thread_cleanup, crate::noop)]
    #[kani::stub(std::sync::atomic::Atomic::<u64>::fetch_add, fetch_add_stub)]
    #[kani::stub(std::sync::atomic::fence, fence_trace_stub)]
    #[kani::stub(cu, cu_stub)]
    #[kani::unwind(4)]
    fn c42_writer_trace() {
        writer_trace(&mut KaniSrc);
    }
}

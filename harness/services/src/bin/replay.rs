#[cfg(not(kani))]
fn main() {
    vh_services::vsrc::replay_main(vh_services::REPLAY);
}
#[cfg(kani)]
fn main() {}

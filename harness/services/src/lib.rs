//! Harnesses for fuel-core-services: C42 (sequence lock), sequentialised.
#![allow(clippy::all)]
#![cfg_attr(kani, feature(generic_atomic, atomic_internals))]

#[path = "../../common/vsrc.rs"]
#[macro_use]
pub mod vsrc;

pub mod c42;

#[cfg(not(kani))]
pub const REPLAY: &[(&str, fn(&mut vsrc::ReplaySrc))] = &[
    ("c42_reader_w1", |s| c42::h64::reader::<_, 1, 8, 4>(s)),
    ("c42_reader_w2", |s| c42::h64::reader::<_, 2, 8, 4>(s)),
    ("c42_reader32_w1", |s| c42::h32::reader::<_, 1, 8, 4>(s)),
    ("c42_writer_trace", |s| c42::writer_trace(s)),
];

pub fn noop() {}

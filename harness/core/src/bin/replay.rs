#[cfg(not(kani))]
fn main() {
    vh_core::vsrc::replay_main(vh_core::REPLAY);
}
#[cfg(kani)]
fn main() {}

//! Harnesses over the `fuel-core` crate: C11, C36, C37, C38.
#![allow(clippy::all)]

#[path = "../../common/vsrc.rs"]
#[macro_use]
pub mod vsrc;

pub mod c11;
pub mod c36;

#[cfg(not(kani))]
pub const REPLAY: &[(&str, fn(&mut vsrc::ReplaySrc))] = &[
    ("c11_next_prefix_p2", |s| c11::next_prefix_contract::<_, 2>(s)),
    ("c11_next_prefix_p3", |s| c11::next_prefix_contract::<_, 3>(s)),
    ("c11_next_prefix_p4", |s| c11::next_prefix_contract::<_, 4>(s)),
    ("c36_coin_step", |s| c36::coin_step(s)),
    ("c36_message_step", |s| c36::message_step(s)),
    ("c36_to_spend_step", |s| c36::to_spend_step(s)),
    ("c36_event_flags", |s| c36::event_flags_step(s)),
];

pub fn noop() {}
pub fn fmt_stub(_args: std::fmt::Arguments<'_>) -> String {
    String::new()
}
pub fn bt_disabled() -> std::backtrace::Backtrace {
    std::backtrace::Backtrace::disabled()
}
pub fn fixed_random_state() -> std::hash::RandomState {
    unsafe { std::mem::transmute::<(u64, u64), std::hash::RandomState>((0, 0)) }
}

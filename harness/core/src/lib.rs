//! Harnesses over the `fuel-core` crate: C11, C36, C37, C38.
#![allow(clippy::all)]

#[path = "../../common/vsrc.rs"]
#[macro_use]
pub mod vsrc;

#[cfg(not(kani))]
pub const REPLAY: &[(&str, fn(&mut vsrc::ReplaySrc))] = &[];

pub fn noop() {}

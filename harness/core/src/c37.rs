//! C37 — coins-to-spend answers are sound: the indexed selection algorithm.
//!
//! Code under test: the real `coins_query::select_coins_to_spend` (public async
//! fn; polled once — with a batch size larger than the collection its
//! `yield_each` adapter never suspends) and its private helpers `big_coins`,
//! `dust_coins`, `select_coins_until`, `skip_big_coins_up_to_amount`.
//! Cut under Kani: `is_excluded` (HashSet lookup) -> a symbolic bit mask on the
//! coin index; `max_dust_count` (random) -> any value within its own upper bound.
//! The native replay uses the real `Exclude` and the real random dust count.
use crate::vsrc::Src;
use fuel_core::{
    coins_query::{select_coins_to_spend, CoinsQueryError},
    fuel_core_graphql_api::{ports::CoinsToSpendIndexIter, storage::coins::CoinsToSpendIndexKey},
    query::asset_query::{AssetSpendTarget, Exclude},
};
use fuel_core_storage::{iter::IntoBoxedIter, Error as StorageError};
use fuel_core_types::{
    entities::coins::CoinId,
    fuel_tx::{Address, AssetId, TxId, UtxoId},
};

pub const N: usize = 3;

pub fn utxo(i: usize) -> UtxoId {
    let mut t = [0u8; 32];
    t[0] = i as u8 + 1;
    UtxoId::new(TxId::new(t), 0)
}
pub fn key(i: usize, amount: u64) -> CoinsToSpendIndexKey {
    CoinsToSpendIndexKey::Coin { owner: Address::zeroed(), asset_id: AssetId::zeroed(), amount, utxo_id: utxo(i) }
}
pub fn index_of(k: &CoinsToSpendIndexKey) -> usize {
    match k {
        CoinsToSpendIndexKey::Coin { utxo_id, .. } => (utxo_id.tx_id()[0] as usize).wrapping_sub(1),
        _ => usize::MAX,
    }
}

/// Index iterator that owns no `Result` values (a `Vec<Result<_, StorageError>>`
/// would make CBMC walk the destructor of `StorageError::Other(anyhow::Error)`
/// for every element left over when the selection stops early).
pub struct KeyIter {
    pub keys: [(bool, u64, usize); N],
    pub pos: usize,
}
impl Iterator for KeyIter {
    type Item = Result<CoinsToSpendIndexKey, StorageError>;
    fn next(&mut self) -> Option<Self::Item> {
        while self.pos < N {
            let (present, amount, idx) = self.keys[self.pos];
            self.pos += 1;
            if present {
                return Some(Ok(key(idx, amount)));
            }
        }
        None
    }
}

/// symbolic exclusion mask (bit i = coin i excluded)
pub static mut MASK: u8 = 0;
#[cfg(kani)]
pub fn is_excluded_model(k: &CoinsToSpendIndexKey, _e: &Exclude) -> bool {
    let i = index_of(k);
    i < N && unsafe { MASK } & (1 << i) != 0
}
#[cfg(kani)]
pub fn max_dust_model(max: u16, big: u16, factor: u16) -> u16 {
    let upper = big.saturating_mul(factor).min(max.saturating_sub(big));
    let x: u16 = kani::any();
    kani::assume(x <= upper);
    x
}

fn block_on<F: std::future::Future>(f: F) -> F::Output {
    use futures::task::noop_waker_ref;
    use std::task::{Context, Poll};
    let mut f = Box::pin(f);
    let mut cx = Context::from_waker(noop_waker_ref());
    let out = match f.as_mut().poll(&mut cx) {
        Poll::Ready(x) => x,
        Poll::Pending => panic!("future not ready"),
    };
    std::mem::forget(f);
    out
}

/// MAXC = the `max` of the query (allocation sizes must be concrete for CBMC).
pub fn select<S: Src, const MAXC: u16>(s: &mut S) {
    // three coins, big-first order a0 >= a1 >= a2 > 0 (the index is sorted by amount)
    let a = [s.u64(), s.u64(), s.u64()];
    vassume!(a[0] >= a[1] && a[1] >= a[2] && a[2] >= 1);
    let n = s.u8() as usize; // how many of them exist
    vassume!(n <= N);
    let mask = s.u8() & 7;
    let target = s.u128();
    let allow_partial = s.bool();
    unsafe {
        MASK = mask;
    }
    let mut big = KeyIter { keys: [(false, 0, 0); N], pos: 0 };
    let mut dust = KeyIter { keys: [(false, 0, 0); N], pos: 0 };
    let mut i = 0;
    while i < N {
        big.keys[i] = (i < n, a[i], i);
        let j = N - 1 - i;
        dust.keys[i] = (j < n, a[j], j);
        i += 1;
    }
    // native replay: the real exclusion set
    let mut ids = Vec::with_capacity(N);
    #[cfg(not(kani))]
    {
        let mut i = 0;
        while i < N {
            if mask & (1 << i) != 0 {
                ids.push(CoinId::Utxo(utxo(i)));
            }
            i += 1;
        }
    }
    let exclude = Exclude::new(ids);
    let iters = CoinsToSpendIndexIter { big_coins_iter: big.into_boxed(), dust_coins_iter: dust.into_boxed() };
    let spend = AssetSpendTarget::new(AssetId::zeroed(), target, MAXC, allow_partial);
    let r = block_on(select_coins_to_spend(iters, spend, &exclude, 1000, Address::zeroed()));

    // admissible coins and their totals
    let mut adm_total: u128 = 0;
    let mut adm_count = 0usize;
    let mut top_total: u128 = 0; // the MAXC largest admissible coins
    let mut i = 0;
    while i < N {
        if i < n && mask & (1 << i) == 0 {
            adm_total += a[i] as u128;
            if adm_count < MAXC as usize {
                top_total += a[i] as u128;
            }
            adm_count += 1;
        }
        i += 1;
    }
    match &r {
        Ok(keys) => {
            vassert!(keys.len() <= MAXC as usize, "C37 an answer holds at most the requested number of coins");
            let mut sum: u128 = 0;
            let mut seen = [false; N];
            let mut j = 0;
            while j < N {
                if j < keys.len() {
                    let idx = index_of(&keys[j]);
                    vassert!(idx < n, "C37 an answer contains only the owner's unspent coins of the asset");
                    vassert!(mask & (1 << idx) == 0, "C37 an answer contains no excluded coin");
                    vassert!(!seen[idx], "C37 an answer contains no duplicates");
                    vassert!(keys[j].amount() == a[idx], "C37 a returned coin carries its own amount");
                    seen[idx] = true;
                    sum += a[idx] as u128;
                }
                j += 1;
            }
            if target == 0 {
                vassert!(keys.len() == 0, "C37 nothing is needed for a zero target");
            } else if !allow_partial {
                vassert!(sum >= target, "C37 the answer covers the requested amount unless partial results were requested");
            } else {
                vassert!(sum > 0, "C37 a partial answer is not empty");
            }
        }
        Err(CoinsQueryError::InsufficientCoins { .. }) => {
            vassert!(target > 0, "C37 a zero target never fails");
            vassert!(adm_total < target || adm_total == 0, "C37 insufficient-coins is reported only when the admissible coins cannot cover the target");
            vassert!(!allow_partial || adm_total == 0, "C37 a partial request fails only when there is nothing to return");
        }
        Err(CoinsQueryError::MaxCoinsReached { .. }) => {
            vassert!(adm_count > MAXC as usize, "C37 max-coins is reported only when more admissible coins exist than allowed");
            vassert!(top_total < target || top_total == 0, "C37 max-coins is reported only when the largest allowed coins cannot cover the target");
        }
        Err(_) => vassert!(false, "C37 no other error arises without a storage error"),
    }
    vreach!();
    vreach!(matches!(&r, Ok(k) if k.len() >= 2), "C37 an answer of two coins reachable");
    vreach!(matches!(&r, Err(CoinsQueryError::MaxCoinsReached { .. })), "C37 max-coins reachable");
    std::mem::forget(r);
    std::mem::forget(exclude);
}

#[cfg(kani)]
mod proofs {
    use super::*;
    use crate::vsrc::KaniSrc;
    macro_rules! proof {
        ($name:ident, $max:expr) => {
            #[kani::proof]
            #[kani::stub(std::rt::thread_cleanup, crate::noop)]
            #[kani::stub(std::fmt::format, crate::fmt_stub)]
            #[kani::stub(std::backtrace::Backtrace::capture, crate::bt_disabled)]
            #[kani::stub(std::hash::RandomState::new, crate::fixed_random_state)]
            #[kani::stub(fuel_core::coins_query::is_excluded, is_excluded_model)]
            #[kani::stub(fuel_core::coins_query::max_dust_count, max_dust_model)]
            #[kani::unwind(6)]
            fn $name() {
                select::<_, $max>(&mut KaniSrc);
            }
        };
    }
    proof!(c37_select_max2, 2);
    proof!(c37_select_max3, 3);
}

//! C36 — off-chain indexes agree with the on-chain state: balances kernel.
//!
//! Code under test: the real `graphql_api::indexation::balances::update`
//! (crate-private; reached through the feature-gated forwarder), generic over
//! `OffChainDatabaseTransaction`. The transaction is a map-free mock with one
//! slot per balance table (one event touches one key); the other eleven tables
//! must not be touched.
use crate::vsrc::Src;
use fuel_core::fuel_core_graphql_api::{
    ports::worker::OffChainDatabaseTransaction,
    storage::{
        assets::AssetsInfo,
        balances::{CoinBalances, CoinBalancesKey, MessageBalance, MessageBalances},
        blocks::FuelBlockIdsToHeights,
        coins::{owner_coin_id_key, CoinsToSpendIndex, OwnedCoinKey, OwnedCoins},
        contracts::ContractsInfo,
        messages::{OwnedMessageIds, OwnedMessageKey, SpentMessages},
        old::{OldFuelBlockConsensus, OldFuelBlocks, OldTransactions},
        relayed_transactions::RelayedTransactionStatuses,
    },
    storage::coins::CoinsToSpendIndexKey,
    verif_hooks::{balances_update, coins_to_spend_update, BalanceUpdate, CoinsToSpendUpdate},
    worker_service::verif_update_event_based_indexation,
};
use fuel_core_storage::{Error as StorageError, Mappable, Result as StorageResult, StorageInspect, StorageMutate};
use fuel_core_types::{
    entities::{coins::coin::Coin, relayer::message::MessageV1, Message},
    fuel_tx::{Address, AssetId, Bytes32},
    fuel_types::BlockHeight,
    services::{executor::Event, transaction_status::TransactionExecutionStatus},
};
use std::borrow::Cow;

/// One slot per balance table.
pub struct MockTx {
    pub coin_key: Option<CoinBalancesKey>,
    pub coin_val: Option<u128>,
    pub coin_reads: u32,
    pub coin_writes: u32,
    pub msg_key: Option<Address>,
    pub msg_val: Option<MessageBalance>,
    pub msg_reads: u32,
    pub msg_writes: u32,
    /// the key the stored value belongs to (a read of another key finds nothing)
    pub stored_coin_key: CoinBalancesKey,
    pub stored_msg_key: Address,
    pub other: u32,
    /// coins-to-spend index: one slot
    pub idx_present: Option<CoinsToSpendIndexKey>,
    pub idx_inserted: Option<CoinsToSpendIndexKey>,
    pub idx_removed: Option<CoinsToSpendIndexKey>,
    pub idx_inserts: u32,
    pub idx_removes: u32,
    /// owned-coin / owned-message / spent-message tables: what was written
    pub owned_coin_inserted: Option<OwnedCoinKey>,
    pub owned_coin_removed: Option<OwnedCoinKey>,
    pub owned_msg_inserted: Option<OwnedMessageKey>,
    pub owned_msg_removed: Option<OwnedMessageKey>,
    pub spent_msg_inserted: Option<fuel_core_types::fuel_types::Nonce>,
    pub owned_writes: u32,
}

impl StorageInspect<OwnedCoins> for MockTx {
    type Error = StorageError;
    fn get(&self, _k: &OwnedCoinKey) -> StorageResult<Option<Cow<'_, ()>>> {
        Ok(None)
    }
    fn contains_key(&self, _k: &OwnedCoinKey) -> StorageResult<bool> {
        Ok(false)
    }
}
impl StorageMutate<OwnedCoins> for MockTx {
    fn replace(&mut self, k: &OwnedCoinKey, _v: &()) -> StorageResult<Option<()>> {
        self.owned_writes += 1;
        self.owned_coin_inserted = Some(*k);
        Ok(None)
    }
    fn take(&mut self, k: &OwnedCoinKey) -> StorageResult<Option<()>> {
        self.owned_writes += 1;
        self.owned_coin_removed = Some(*k);
        Ok(Some(()))
    }
}
impl StorageInspect<OwnedMessageIds> for MockTx {
    type Error = StorageError;
    fn get(&self, _k: &OwnedMessageKey) -> StorageResult<Option<Cow<'_, ()>>> {
        Ok(None)
    }
    fn contains_key(&self, _k: &OwnedMessageKey) -> StorageResult<bool> {
        Ok(false)
    }
}
impl StorageMutate<OwnedMessageIds> for MockTx {
    fn replace(&mut self, k: &OwnedMessageKey, _v: &()) -> StorageResult<Option<()>> {
        self.owned_writes += 1;
        self.owned_msg_inserted = Some(*k);
        Ok(None)
    }
    fn take(&mut self, k: &OwnedMessageKey) -> StorageResult<Option<()>> {
        self.owned_writes += 1;
        self.owned_msg_removed = Some(*k);
        Ok(Some(()))
    }
}
impl StorageInspect<SpentMessages> for MockTx {
    type Error = StorageError;
    fn get(&self, _k: &fuel_core_types::fuel_types::Nonce) -> StorageResult<Option<Cow<'_, ()>>> {
        Ok(None)
    }
    fn contains_key(&self, _k: &fuel_core_types::fuel_types::Nonce) -> StorageResult<bool> {
        Ok(false)
    }
}
impl StorageMutate<SpentMessages> for MockTx {
    fn replace(&mut self, k: &fuel_core_types::fuel_types::Nonce, _v: &()) -> StorageResult<Option<()>> {
        self.spent_msg_inserted = Some(*k);
        Ok(None)
    }
    fn take(&mut self, _k: &fuel_core_types::fuel_types::Nonce) -> StorageResult<Option<()>> {
        self.other += 1;
        Ok(None)
    }
}

impl StorageInspect<CoinsToSpendIndex> for MockTx {
    type Error = StorageError;
    fn get(&self, key: &CoinsToSpendIndexKey) -> StorageResult<Option<Cow<'_, ()>>> {
        Ok(if self.idx_present.as_ref() == Some(key) { Some(Cow::Owned(())) } else { None })
    }
    fn contains_key(&self, key: &CoinsToSpendIndexKey) -> StorageResult<bool> {
        Ok(self.idx_present.as_ref() == Some(key))
    }
}
impl StorageMutate<CoinsToSpendIndex> for MockTx {
    fn replace(&mut self, key: &CoinsToSpendIndexKey, _v: &()) -> StorageResult<Option<()>> {
        self.idx_inserts += 1;
        self.idx_inserted = Some(key.clone());
        let old = if self.idx_present.as_ref() == Some(key) { Some(()) } else { None };
        self.idx_present = Some(key.clone());
        Ok(old)
    }
    fn take(&mut self, key: &CoinsToSpendIndexKey) -> StorageResult<Option<()>> {
        self.idx_removes += 1;
        self.idx_removed = Some(key.clone());
        if self.idx_present.as_ref() == Some(key) {
            self.idx_present = None;
            Ok(Some(()))
        } else {
            Ok(None)
        }
    }
}

impl StorageInspect<CoinBalances> for MockTx {
    type Error = StorageError;
    fn get(&self, key: &CoinBalancesKey) -> StorageResult<Option<Cow<'_, u128>>> {
        Ok(if *key == self.stored_coin_key { self.coin_val.as_ref().map(Cow::Borrowed) } else { None })
    }
    fn contains_key(&self, key: &CoinBalancesKey) -> StorageResult<bool> {
        Ok(*key == self.stored_coin_key && self.coin_val.is_some())
    }
}
impl StorageMutate<CoinBalances> for MockTx {
    fn replace(&mut self, key: &CoinBalancesKey, value: &u128) -> StorageResult<Option<u128>> {
        self.coin_writes += 1;
        self.coin_key = Some(*key);
        let old = if *key == self.stored_coin_key { self.coin_val } else { None };
        self.stored_coin_key = *key;
        self.coin_val = Some(*value);
        Ok(old)
    }
    fn take(&mut self, _key: &CoinBalancesKey) -> StorageResult<Option<u128>> {
        self.other += 1;
        Ok(None)
    }
}
impl StorageInspect<MessageBalances> for MockTx {
    type Error = StorageError;
    fn get(&self, key: &Address) -> StorageResult<Option<Cow<'_, MessageBalance>>> {
        Ok(if *key == self.stored_msg_key { self.msg_val.as_ref().map(Cow::Borrowed) } else { None })
    }
    fn contains_key(&self, key: &Address) -> StorageResult<bool> {
        Ok(*key == self.stored_msg_key && self.msg_val.is_some())
    }
}
impl StorageMutate<MessageBalances> for MockTx {
    fn replace(&mut self, key: &Address, value: &MessageBalance) -> StorageResult<Option<MessageBalance>> {
        self.msg_writes += 1;
        self.msg_key = Some(*key);
        let old = if *key == self.stored_msg_key { self.msg_val.clone() } else { None };
        self.stored_msg_key = *key;
        self.msg_val = Some(value.clone());
        Ok(old)
    }
    fn take(&mut self, _key: &Address) -> StorageResult<Option<MessageBalance>> {
        self.other += 1;
        Ok(None)
    }
}

macro_rules! untouched_table {
    ($($t:ty),*) => {$(
        impl StorageInspect<$t> for MockTx {
            type Error = StorageError;
            fn get(&self, _k: &<$t as Mappable>::Key) -> StorageResult<Option<Cow<'_, <$t as Mappable>::OwnedValue>>> {
                panic!("C36 the balances index touched another table")
            }
            fn contains_key(&self, _k: &<$t as Mappable>::Key) -> StorageResult<bool> {
                panic!("C36 the balances index touched another table")
            }
        }
        impl StorageMutate<$t> for MockTx {
            fn replace(&mut self, _k: &<$t as Mappable>::Key, _v: &<$t as Mappable>::Value) -> StorageResult<Option<<$t as Mappable>::OwnedValue>> {
                panic!("C36 the balances index touched another table")
            }
            fn take(&mut self, _k: &<$t as Mappable>::Key) -> StorageResult<Option<<$t as Mappable>::OwnedValue>> {
                panic!("C36 the balances index touched another table")
            }
        }
    )*};
}
untouched_table!(FuelBlockIdsToHeights, ContractsInfo, OldFuelBlocks, OldFuelBlockConsensus,
    OldTransactions, RelayedTransactionStatuses, AssetsInfo);

impl OffChainDatabaseTransaction for MockTx {
    fn record_tx_id_owner(&mut self, _o: &Address, _h: BlockHeight, _i: u16, _t: &Bytes32) -> StorageResult<()> {
        self.other += 1;
        Ok(())
    }
    fn update_tx_status(&mut self, _id: &Bytes32, _s: TransactionExecutionStatus) -> StorageResult<Option<TransactionExecutionStatus>> {
        self.other += 1;
        Ok(None)
    }
    fn increase_tx_count(&mut self, _n: u64) -> StorageResult<u64> {
        self.other += 1;
        Ok(0)
    }
    fn get_tx_count(&self) -> StorageResult<u64> {
        Ok(0)
    }
    fn commit(self) -> StorageResult<()> {
        Ok(())
    }
}

fn addr(b: u8) -> Address {
    let mut a = [0u8; 32];
    a[0] = b;
    Address::new(a)
}
fn asset(b: u8) -> AssetId {
    let mut a = [0u8; 32];
    a[31] = b;
    AssetId::new(a)
}

/// One coin event against an arbitrary stored coin balance.
pub fn coin_step<S: Src>(s: &mut S) {
    let owner = addr(s.u8());
    let asset_id = asset(s.u8());
    let stored_owner = addr(s.u8());
    let stored_asset = asset(s.u8());
    let has_stored = s.bool();
    let stored = s.u128();
    let amount = s.u64();
    let created = s.bool();
    let enabled = s.bool();
    let key = CoinBalancesKey::new(&owner, &asset_id);
    let stored_key = CoinBalancesKey::new(&stored_owner, &stored_asset);
    let mut tx = MockTx {
        coin_key: None, coin_val: if has_stored { Some(stored) } else { None }, coin_reads: 0, coin_writes: 0,
        msg_key: None, msg_val: None, msg_reads: 0, msg_writes: 0,
        stored_coin_key: stored_key, stored_msg_key: addr(0), other: 0,
        idx_present: None, idx_inserted: None, idx_removed: None, idx_inserts: 0, idx_removes: 0,
        owned_coin_inserted: None, owned_coin_removed: None, owned_msg_inserted: None, owned_msg_removed: None, spent_msg_inserted: None, owned_writes: 0,
    };
    let coin = Coin { utxo_id: Default::default(), owner, amount, asset_id, tx_pointer: Default::default() };
    let event = if created { Event::CoinCreated(coin) } else { Event::CoinConsumed(coin) };
    let r = balances_update(&event, &mut tx, enabled);

    // the balance of (owner, asset) before the event
    let before: u128 = if has_stored && stored_key == key { stored } else { 0 };
    if !enabled {
        vassert!(r == BalanceUpdate::Ok && tx.coin_writes == 0 && tx.msg_writes == 0, "C36 disabled indexation touches nothing");
    } else if created {
        vassert!(r == BalanceUpdate::Ok, "C36 a created coin is always indexed");
        vassert!(tx.coin_writes == 1 && tx.coin_key == Some(key), "C36 exactly the owner/asset balance of the coin is written");
        vassert!(tx.coin_val == Some(before.saturating_add(amount as u128)), "C36 a created coin adds its amount to the owner's balance of that asset");
    } else if (amount as u128) > before {
        vassert!(r == BalanceUpdate::CoinUnderflow, "C36 spending more than the indexed balance is an error");
        vassert!(tx.coin_writes == 0, "C36 a failed deduction writes nothing");
    } else {
        vassert!(r == BalanceUpdate::Ok, "C36 a consumed coin within the balance is indexed");
        vassert!(tx.coin_writes == 1 && tx.coin_key == Some(key), "C36 exactly the owner/asset balance of the coin is written");
        vassert!(tx.coin_val == Some(before - amount as u128), "C36 a consumed coin subtracts its amount from the owner's balance of that asset");
    }
    vassert!(tx.msg_writes == 0 && tx.other == 0, "C36 a coin event touches only the coin balance");
    vreach!();
    vreach!(r == BalanceUpdate::CoinUnderflow, "C36 underflow reachable");
    std::mem::forget(event);
}

/// One message event against an arbitrary stored message balance.
pub fn message_step<S: Src>(s: &mut S) {
    let recipient = addr(s.u8());
    let stored_owner = addr(s.u8());
    let has_stored = s.bool();
    let stored = MessageBalance { retryable: s.u128(), non_retryable: s.u128() };
    let amount = s.u64();
    let imported = s.bool();
    let retryable = s.bool();
    let enabled = s.bool();
    let mut tx = MockTx {
        coin_key: None, coin_val: None, coin_reads: 0, coin_writes: 0,
        msg_key: None, msg_val: if has_stored { Some(stored.clone()) } else { None }, msg_reads: 0, msg_writes: 0,
        stored_coin_key: CoinBalancesKey::new(&addr(0), &asset(0)), stored_msg_key: stored_owner, other: 0,
        idx_present: None, idx_inserted: None, idx_removed: None, idx_inserts: 0, idx_removes: 0,
        owned_coin_inserted: None, owned_coin_removed: None, owned_msg_inserted: None, owned_msg_removed: None, spent_msg_inserted: None, owned_writes: 0,
    };
    let mut data = Vec::with_capacity(1);
    if retryable {
        data.push(1u8);
    }
    let message = Message::V1(MessageV1 { sender: addr(9), recipient, nonce: Default::default(), amount, data, da_height: Default::default() });
    let event = if imported { Event::MessageImported(message) } else { Event::MessageConsumed(message) };
    let r = balances_update(&event, &mut tx, enabled);

    let before = if has_stored && stored_owner == recipient { stored.clone() } else { MessageBalance { retryable: 0, non_retryable: 0 } };
    let (mine, other) = if retryable { (before.retryable, before.non_retryable) } else { (before.non_retryable, before.retryable) };
    let after = tx.msg_val.clone();
    if !enabled {
        vassert!(r == BalanceUpdate::Ok && tx.msg_writes == 0 && tx.coin_writes == 0, "C36 disabled indexation touches nothing");
    } else if imported {
        vassert!(r == BalanceUpdate::Ok, "C36 an imported message is always indexed");
        vassert!(tx.msg_writes == 1 && tx.msg_key == Some(recipient), "C36 exactly the recipient's message balance is written");
        let a = after.unwrap();
        let (new_mine, new_other) = if retryable { (a.retryable, a.non_retryable) } else { (a.non_retryable, a.retryable) };
        vassert!(new_mine == mine.saturating_add(amount as u128), "C36 an imported message adds its amount to the matching (retryable / non-retryable) part");
        vassert!(new_other == other, "C36 the other part of the message balance is unchanged");
    } else if (amount as u128) > mine {
        vassert!(r == BalanceUpdate::MessageUnderflow, "C36 consuming more than the indexed message balance is an error");
        vassert!(tx.msg_writes == 0, "C36 a failed deduction writes nothing");
    } else {
        vassert!(r == BalanceUpdate::Ok, "C36 a consumed message within the balance is indexed");
        vassert!(tx.msg_writes == 1 && tx.msg_key == Some(recipient), "C36 exactly the recipient's message balance is written");
        let a = after.unwrap();
        let (new_mine, new_other) = if retryable { (a.retryable, a.non_retryable) } else { (a.non_retryable, a.retryable) };
        vassert!(new_mine == mine - amount as u128, "C36 a consumed message subtracts its amount from the matching part");
        vassert!(new_other == other, "C36 the other part of the message balance is unchanged");
    }
    vassert!(tx.coin_writes == 0 && tx.other == 0, "C36 a message event touches only the message balance");
    vreach!();
    vreach!(r == BalanceUpdate::MessageUnderflow, "C36 underflow reachable");
    std::mem::forget(event);
}

/// One event against the coins-to-spend index: the resource is listed exactly
/// while it is unspent, under a key that carries its owner, asset, amount,
/// identifier and (for messages) the retryable flag.
pub fn to_spend_step<S: Src>(s: &mut S) {
    let owner = addr(s.u8());
    let asset_id = asset(s.u8());
    let base_asset = asset(s.u8());
    let amount = s.u64();
    let id_byte = s.u8();
    let is_coin = s.bool();
    let add = s.bool();
    let retryable = s.bool();
    let already_present = s.bool();
    let enabled = s.bool();
    let mut tx_id = [0u8; 32];
    tx_id[5] = id_byte;
    let mut nonce = [0u8; 32];
    nonce[7] = id_byte;
    let (event, expect_key) = if is_coin {
        let utxo_id = fuel_core_types::fuel_tx::UtxoId::new(fuel_core_types::fuel_tx::TxId::new(tx_id), 1);
        let coin = Coin { utxo_id, owner, amount, asset_id, tx_pointer: Default::default() };
        let key = CoinsToSpendIndexKey::Coin { owner, asset_id, amount, utxo_id };
        (if add { Event::CoinCreated(coin) } else { Event::CoinConsumed(coin) }, key)
    } else {
        let mut data = Vec::with_capacity(1);
        if retryable {
            data.push(1u8);
        }
        let n = fuel_core_types::fuel_types::Nonce::new(nonce);
        let message = Message::V1(MessageV1 { sender: addr(9), recipient: owner, nonce: n, amount, data, da_height: Default::default() });
        let key = CoinsToSpendIndexKey::Message { retryable_flag: if retryable { 0 } else { 1 }, owner, asset_id: base_asset, amount, nonce: n };
        (if add { Event::MessageImported(message) } else { Event::MessageConsumed(message) }, key)
    };
    let mut tx = MockTx {
        coin_key: None, coin_val: None, coin_reads: 0, coin_writes: 0,
        msg_key: None, msg_val: None, msg_reads: 0, msg_writes: 0,
        stored_coin_key: CoinBalancesKey::new(&addr(0), &asset(0)), stored_msg_key: addr(0), other: 0,
        idx_present: if already_present { Some(expect_key.clone()) } else { None },
        idx_inserted: None, idx_removed: None, idx_inserts: 0, idx_removes: 0,
        owned_coin_inserted: None, owned_coin_removed: None, owned_msg_inserted: None, owned_msg_removed: None, spent_msg_inserted: None, owned_writes: 0,
    };
    let r = coins_to_spend_update(&event, &mut tx, enabled, &base_asset);
    if !enabled {
        vassert!(r == CoinsToSpendUpdate::Ok && tx.idx_inserts == 0 && tx.idx_removes == 0, "C36 disabled indexation touches nothing");
    } else if add {
        vassert!(tx.idx_inserts == 1 && tx.idx_removes == 0, "C36 a created coin / imported message is listed in the coins-to-spend index exactly once");
        vassert!(tx.idx_inserted.as_ref() == Some(&expect_key), "C36 the index entry carries the resource's owner, asset, amount and identifier");
        vassert!((r == CoinsToSpendUpdate::AlreadyIndexed) == already_present, "C36 indexing a resource twice is reported");
        vassert!(r == CoinsToSpendUpdate::Ok || already_present, "C36 a new unspent resource is always listed, whatever its amount");
    } else {
        vassert!(tx.idx_removes == 1 && tx.idx_inserts == 0, "C36 a spent resource is removed from the coins-to-spend index exactly once");
        vassert!(tx.idx_removed.as_ref() == Some(&expect_key), "C36 the entry removed is the spent resource's own");
        vassert!((r == CoinsToSpendUpdate::NotFound) == !already_present, "C36 spending a resource that is not listed is reported");
        vassert!(tx.idx_present.is_none(), "C36 a spent resource is no longer listed");
    }
    vassert!(tx.coin_writes == 0 && tx.msg_writes == 0 && tx.other == 0, "C36 the coins-to-spend update touches only its own index");
    vreach!();
    vreach!(r == CoinsToSpendUpdate::Ok && add && amount == 0, "C36 listing a zero-amount resource reachable");
    std::mem::forget(event);
}

/// One event through the private `update_event_based_indexation` of the worker
/// service with both enable flags symbolic: each flag governs its own index
/// (the balances tables move only under the balances flag, the coins-to-spend
/// index only under its own flag).
pub fn event_flags_step<S: Src>(s: &mut S) {
    let owner = addr(s.u8());
    let asset_id = asset(s.u8());
    let base_asset = asset(s.u8());
    let amount = s.u64();
    let is_coin = s.bool();
    let add = s.bool();
    let balances_enabled = s.bool();
    let to_spend_enabled = s.bool();
    let event = if is_coin {
        let coin = Coin { utxo_id: Default::default(), owner, amount, asset_id, tx_pointer: Default::default() };
        if add { Event::CoinCreated(coin) } else { Event::CoinConsumed(coin) }
    } else {
        let message = Message::V1(MessageV1 { sender: addr(9), recipient: owner, nonce: Default::default(), amount, data: Vec::new(), da_height: Default::default() });
        if add { Event::MessageImported(message) } else { Event::MessageConsumed(message) }
    };
    let mut tx = MockTx {
        coin_key: None, coin_val: None, coin_reads: 0, coin_writes: 0,
        msg_key: None, msg_val: None, msg_reads: 0, msg_writes: 0,
        stored_coin_key: CoinBalancesKey::new(&addr(0), &asset(0)), stored_msg_key: addr(0), other: 0,
        idx_present: None, idx_inserted: None, idx_removed: None, idx_inserts: 0, idx_removes: 0,
        owned_coin_inserted: None, owned_coin_removed: None, owned_msg_inserted: None, owned_msg_removed: None, spent_msg_inserted: None, owned_writes: 0,
    };
    let ok = verif_update_event_based_indexation(&event, &mut tx, balances_enabled, to_spend_enabled, &base_asset);
    let balance_writes = tx.coin_writes + tx.msg_writes;
    let index_writes = tx.idx_inserts + tx.idx_removes;
    if !balances_enabled {
        vassert!(balance_writes == 0, "C36 the balances index moves only when balances indexation is enabled");
    }
    if !to_spend_enabled {
        vassert!(index_writes == 0, "C36 the coins-to-spend index moves only when its indexation is enabled");
    }
    if add {
        // an empty store: additions cannot fail
        vassert!(ok, "C36 a new resource is indexed by every enabled index");
        vassert!(balance_writes == balances_enabled as u32, "C36 the balances index records a new resource exactly when enabled");
        vassert!(index_writes == to_spend_enabled as u32, "C36 the coins-to-spend index lists a new resource exactly when enabled");
    }
    vassert!(tx.other == 0 && tx.owned_writes == 0, "C36 the event-based indexation touches only the two indexes");
    vreach!();
    vreach!(add && balances_enabled && !to_spend_enabled, "C36 balances-only configuration reachable");
    std::mem::forget(event);
}

#[cfg(kani)]
mod proofs {
    use super::*;
    use crate::vsrc::KaniSrc;
    macro_rules! proof {
        ($name:ident, $body:expr) => {
            #[kani::proof]
            #[kani::stub(std::rt::thread_cleanup, crate::noop)]
            #[kani::stub(std::fmt::format, crate::fmt_stub)]
            #[kani::stub(std::backtrace::Backtrace::capture, crate::bt_disabled)]
            #[kani::unwind(66)]
            fn $name() {
                $body(&mut KaniSrc);
            }
        };
    }
    proof!(c36_coin_step, coin_step);
    proof!(c36_message_step, message_step);
    proof!(c36_to_spend_step, to_spend_step);
    proof!(c36_event_flags, event_flags_step);
}

//! C11 — all storage backends iterate identically: the prefix-successor kernel.
//!
//! `RocksDb::reverse_prefix_iter` seeks to `next_prefix(prefix)` and walks
//! backwards while keys start with `prefix`. That is the sorted-map answer iff
//! the keys in [prefix, next_prefix(prefix)) are exactly the keys that start
//! with `prefix`, and `None` is returned only when no key can follow the prefix
//! range. Code under test: the real private `next_prefix` (forwarder).
use crate::vsrc::Src;
use fuel_core::state::rocks_db::verif_next_prefix;

/// lexicographic `a < b` on (bytes, len) pairs, fixed trip count
fn lt(a: &[u8; 4], al: usize, b: &[u8; 4], bl: usize) -> bool {
    let mut i = 0;
    while i < 4 {
        if i >= al || i >= bl {
            return al < bl && i >= al;
        }
        if a[i] != b[i] {
            return a[i] < b[i];
        }
        i += 1;
    }
    false
}

fn starts_with(k: &[u8; 4], kl: usize, p: &[u8; 4], pl: usize) -> bool {
    if kl < pl {
        return false;
    }
    let mut i = 0;
    while i < 4 {
        if i < pl && k[i] != p[i] {
            return false;
        }
        i += 1;
    }
    true
}

/// PMAX: longest prefix, key length <= 4.
pub fn next_prefix_contract<S: Src, const PMAX: usize>(s: &mut S) {
    let pl = s.u8() as usize;
    let kl = s.u8() as usize;
    vassume!(pl <= PMAX && kl <= 4);
    let mut p = [0u8; 4];
    let mut k = [0u8; 4];
    let mut i = 0;
    while i < 4 {
        let pb = s.u8();
        let kb = s.u8();
        if i < pl {
            p[i] = pb;
        }
        if i < kl {
            k[i] = kb;
        }
        i += 1;
    }
    let mut pv = Vec::with_capacity(4);
    let mut i = 0;
    while i < 4 {
        if i < pl {
            pv.push(p[i]);
        }
        i += 1;
    }
    let next = verif_next_prefix(pv);
    let mut all_ff = true;
    let mut i = 0;
    while i < 4 {
        if i < pl && p[i] != 0xFF {
            all_ff = false;
        }
        i += 1;
    }
    match &next {
        None => {
            vassert!(all_ff, "C11 a prefix that has a successor gets one (None only when every byte is 0xFF)");
        }
        Some(nv) => {
            vassert!(!all_ff, "C11 a prefix of only 0xFF bytes has no successor");
            vassert!(nv.len() <= 4 && nv.len() >= 1, "C11 the successor is a non-empty key not longer than the prefix");
            let nl = nv.len();
            let mut n = [0u8; 4];
            let mut i = 0;
            while i < 4 {
                if i < nl {
                    n[i] = nv[i];
                }
                i += 1;
            }
            let in_range = !lt(&k, kl, &p, pl) && lt(&k, kl, &n, nl);
            let has_prefix = starts_with(&k, kl, &p, pl);
            vassert!(!has_prefix || in_range, "C11 every key with the prefix lies below the seek position of reverse iteration");
            vassert!(!in_range || has_prefix, "C11 no key without the prefix lies between the prefix and the seek position (reverse iteration would stop at it)");
        }
    }
    vreach!();
    vreach!(matches!(&next, Some(nv) if nv.len() < pl), "C11 carry over a trailing 0xFF reachable");
    std::mem::forget(next);
}

#[cfg(kani)]
mod proofs {
    use super::*;
    use crate::vsrc::KaniSrc;
    #[kani::proof]
    #[kani::stub(std::rt::thread_cleanup, crate::noop)]
    #[kani::unwind(6)]
    fn c11_next_prefix_p2() {
        next_prefix_contract::<_, 2>(&mut KaniSrc);
    }
    #[kani::proof]
    #[kani::stub(std::rt::thread_cleanup, crate::noop)]
    #[kani::unwind(6)]
    fn c11_next_prefix_p3() {
        next_prefix_contract::<_, 3>(&mut KaniSrc);
    }
    #[kani::proof]
    #[kani::stub(std::rt::thread_cleanup, crate::noop)]
    #[kani::unwind(6)]
    fn c11_next_prefix_p4() {
        next_prefix_contract::<_, 4>(&mut KaniSrc);
    }
}

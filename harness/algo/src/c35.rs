//! C35 — worst-case gas price estimates are total and bound the compounded price.
//!
//! Code under test: the real `cumulative_percentage_change` (pub) and
//! `AlgorithmV1::worst_case` (through `AlgorithmUpdaterV1::algorithm`).
use crate::vsrc::Src;
use fuel_gas_price_algorithm::{
    cumulative_percentage_change,
    v1::{AlgorithmUpdaterV1, ClampedPercentage, L2ActivityTracker},
};
use std::num::NonZeroU64;

/// (a) totality: no panic / out-of-bounds / overflow for ANY input.
pub fn total<S: Src>(s: &mut S) {
    let price = s.u64();
    let for_height = s.u32();
    let pct = s.u64();
    let height = s.u32();
    let _ = cumulative_percentage_change(price, for_height, pct, height);
    vassert!(true, "C35 the estimate is computed without failing");
    vreach!();
}

pub fn updater(exec: u64, exec_pct: u16, da: u64, da_pct: u16, height: u32) -> AlgorithmUpdaterV1 {
    AlgorithmUpdaterV1 {
        new_scaled_exec_price: exec,
        min_exec_gas_price: 0,
        exec_gas_price_change_percent: exec_pct,
        l2_block_height: height,
        l2_block_fullness_threshold_percent: ClampedPercentage::new(50),
        new_scaled_da_gas_price: da,
        gas_price_factor: NonZeroU64::new(1).unwrap(),
        min_da_gas_price: 0,
        max_da_gas_price: u64::MAX,
        max_da_gas_price_change_percent: da_pct,
        total_da_rewards: 0,
        latest_known_total_da_cost: 0,
        projected_total_da_cost: 0,
        da_p_component: 0,
        da_d_component: 0,
        last_profit: 0,
        second_to_last_profit: 0,
        latest_da_cost_per_byte: 0,
        l2_activity: L2ActivityTracker::new_always_normal(),
        unrecorded_blocks_bytes: 0,
    }
}

/// (a') totality of the estimate the node serves (`AlgorithmV1::worst_case`),
/// every price, both u16 percentages, every pair of heights.
pub fn worst_case_total<S: Src>(s: &mut S) {
    let exec = s.u64();
    let exec_pct = s.u16();
    let da = s.u64();
    let da_pct = s.u16();
    let for_height = s.u32();
    let height = s.u32();
    let algo = updater(exec, exec_pct, da, da_pct, for_height).algorithm();
    let w = algo.worst_case(height);
    vassert!(w >= 0, "C35 worst_case is computed without failing");
    vreach!();
}

/// (a'') the served estimate is the sum of the two components, each compounded
/// with ITS OWN percentage (table region, where the kernel is deterministic
/// for the solver: percentages <= 24, horizon <= 24; prices < 2^K).
pub fn worst_case_components<S: Src, const K: u32>(s: &mut S) {
    let exec = s.u64();
    let exec_pct = s.u16();
    let da = s.u64();
    let da_pct = s.u16();
    if K == 0 {
        // fixed price pair: only the percentages and the horizon are symbolic
        vassume!(exec == 1000 && da == 777);
    } else if K == 1 {
        vassume!(exec == 3 && da == 1_000_000_007);
    } else {
        vassume!(exec < (1u64 << K) && da < (1u64 << K));
    }
    let for_height = s.u32();
    let height = s.u32();
    vassume!(exec_pct <= 24 && da_pct <= 24);
    vassume!(height >= for_height && height - for_height <= 24);
    let algo = updater(exec, exec_pct, da, da_pct, for_height).algorithm();
    let w = algo.worst_case(height);
    let e = cumulative_percentage_change(exec, for_height, exec_pct as u64, height);
    let d = cumulative_percentage_change(da, for_height, da_pct as u64, height);
    vassert!(w == e.saturating_add(d), "C35 the worst case compounds the execution and the DA price each with its own percentage");
    vassert!(w >= exec.max(da), "C35 the worst case is at least each current price component");
    vreach!();
}

/// (b) monotone in the horizon inside the precomputed-table region: the
/// estimate for horizon b+1 is not below the one for horizon b
/// (price < 2^K).
pub fn table_monotone<S: Src, const K: u32>(s: &mut S) {
    let price = s.u64();
    let pct = s.u64();
    let b = s.u32();
    vassume!(price < (1u64 << K));
    vassume!(pct <= 24);
    vassume!(b < 24);
    let e0 = cumulative_percentage_change(price, 0, pct, b);
    let e1 = cumulative_percentage_change(price, 0, pct, b + 1);
    vassert!(e0 <= e1, "C35 the estimate never decreases as the horizon grows (table region)");
    vassert!(e0 >= price, "C35 the estimate is at least the current price");
    vreach!();
}

/// (c1) the multiplier the real function applies for horizon b+1 is the one
/// for horizon b times (1 + pct/100), to within 2^-46 relative, for every table
/// row and column; measured through the real function at price 2^40 (the
/// product with a power of two is exact). Row 0 is exactly 1. Together with
/// `ceil` this pins every table entry to the exact compounding factor.
pub fn table_rows<S: Src>(s: &mut S) {
    let pct = s.u64();
    let b = s.u32();
    vassume!(pct <= 24);
    vassume!(b < 24);
    const P: u64 = 1 << 40;
    let e0 = cumulative_percentage_change(P, 0, pct, b);
    let e1 = cumulative_percentage_change(P, 0, pct, b + 1);
    let lhs = e1 * 100;
    let rhs = e0 * (100 + pct);
    let diff = if lhs > rhs { lhs - rhs } else { rhs - lhs };
    vassert!(diff <= 256, "C35 the factor for horizon b+1 is the factor for horizon b compounded once");
    if b == 0 {
        vassert!(e0 == P, "C35 the factor for horizon 0 is exactly 1");
    }
    vreach!();
}

/// (c2) lower bound against the integer compounding loop (rounding down each
/// block), for one concrete (percentage, horizon) per instance and every price
/// below 2^K.
pub fn lower_bound<S: Src, const K: u32, const PCT: u32, const B: u32>(s: &mut S) {
    let price = s.u32();
    vassume!(price < (1u32 << K));
    let mut c = price;
    let mut i = 0;
    while i < B {
        c = c + c * PCT / 100;
        i += 1;
    }
    let est = cumulative_percentage_change(price as u64, 0, PCT as u64, B);
    vassert!(est >= c as u64, "C35 the estimate bounds the compounded price");
    vreach!();
}

/// Known finding F5 (see /verif/known_findings.json): for prices of 2^52 and
/// above the f64 product loses the low bits and the estimate falls below the
/// integer compounding. This harness explores ONLY that region, so that it
/// keeps demonstrating the finding; the region below is covered by the
/// harnesses above.
pub fn lower_bound_above_2p52<S: Src>(s: &mut S) {
    let price = s.u64();
    vassume!(price >= (1u64 << 52));
    vassume!(price < (1u64 << 60));
    let c1 = price + price * 13 / 100;
    let c2 = c1 + c1 * 13 / 100;
    let est = cumulative_percentage_change(price, 0, 13, 2);
    vassert!(est >= c2, "C35 the estimate bounds the compounded price (price >= 2^52, 13 percent, 2 blocks)");
    vreach!();
}

#[cfg(kani)]
mod proofs {
    use super::*;
    use crate::vsrc::KaniSrc;

    macro_rules! proof {
        ($name:ident, $unwind:expr, $body:expr) => {
            #[kani::proof]
            #[kani::stub(std::rt::thread_cleanup, crate::noop)]
            #[kani::unwind($unwind)]
            fn $name() {
                $body(&mut KaniSrc);
            }
        };
    }
    proof!(c35_total, 2, total);
    proof!(c35_worst_case_total, 2, worst_case_total);
    proof!(c35_worst_case_components_fixed, 2, worst_case_components::<_, 0>);
    proof!(c35_worst_case_components_fixed2, 2, worst_case_components::<_, 1>);
    proof!(c35_table_monotone_k16, 2, table_monotone::<_, 16>);
    proof!(c35_table_monotone_k20, 2, table_monotone::<_, 20>);
    proof!(c35_table_monotone_k28, 2, table_monotone::<_, 28>);
    proof!(c35_table_rows, 2, table_rows);
    proof!(c35_lower_k12_p1_b1, 26, lower_bound::<_, 12, 1, 1>);
    proof!(c35_lower_k12_p13_b2, 26, lower_bound::<_, 12, 13, 2>);
    proof!(c35_lower_k12_p24_b8, 26, lower_bound::<_, 12, 24, 8>);
    proof!(c35_lower_k12_p7_b24, 26, lower_bound::<_, 12, 7, 24>);
    proof!(c35_lower_k16_p13_b2, 26, lower_bound::<_, 16, 13, 2>);
    proof!(c35_lower_k16_p24_b4, 26, lower_bound::<_, 16, 24, 4>);
    proof!(c35_lower_k16_p3_b12, 26, lower_bound::<_, 16, 3, 12>);
    proof!(c35_lower_k14_p24_b24, 26, lower_bound::<_, 14, 24, 24>);
    proof!(c35_lower_above_2p52, 2, lower_bound_above_2p52);
}

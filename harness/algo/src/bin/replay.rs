#[cfg(not(kani))]
fn main() {
    vh_algo::vsrc::replay_main(vh_algo::REPLAY);
}
#[cfg(kani)]
fn main() {}

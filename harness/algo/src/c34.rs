//! C34 — gas prices stay within bounds and change at most the configured rate.
//!
//! Code under test: the real `AlgorithmUpdaterV1` update steps (private;
//! reached through the feature-gated forwarders `verif_*`) and the public
//! `update_l2_block_data` / `update_da_record_data`.
//! The pre-state is ANY updater (all fields are public), so one step covers
//! every history.
use crate::vsrc::Src;
use fuel_gas_price_algorithm::v1::{
    AlgorithmUpdaterV1, Bytes, ClampedPercentage, Error, Height, L2ActivityTracker, UnrecordedBlocks,
};
use std::num::NonZeroU64;

/// `UnrecordedBlocks` without a map: arbitrary answers, counted calls.
pub struct Blocks {
    pub inserts: u32,
    pub removes: u32,
    pub answers: [(bool, u64); 3],
}
impl UnrecordedBlocks for Blocks {
    fn insert(&mut self, _h: Height, _b: Bytes) -> Result<(), String> {
        self.inserts += 1;
        Ok(())
    }
    fn remove(&mut self, _h: &Height) -> Result<Option<Bytes>, String> {
        let i = (self.removes as usize).min(2);
        self.removes += 1;
        let (some, b) = self.answers[i];
        Ok(if some { Some(b) } else { None })
    }
}

/// Any updater. FACTOR = 0 leaves the gas price factor symbolic.
pub fn any_updater<S: Src, const FACTOR: u64>(s: &mut S) -> AlgorithmUpdaterV1 {
    let factor = if FACTOR == 0 { s.u64() } else { FACTOR };
    vassume!(factor != 0);
    let tracker = L2ActivityTracker::new(s.u16(), s.u16(), s.u16(), s.u16(), ClampedPercentage::new(s.u8()));
    AlgorithmUpdaterV1 {
        new_scaled_exec_price: s.u64(),
        min_exec_gas_price: s.u64(),
        exec_gas_price_change_percent: s.u16(),
        l2_block_height: s.u32(),
        l2_block_fullness_threshold_percent: ClampedPercentage::new(s.u8()),
        new_scaled_da_gas_price: s.u64(),
        gas_price_factor: NonZeroU64::new(factor).unwrap(),
        min_da_gas_price: s.u64(),
        max_da_gas_price: s.u64(),
        max_da_gas_price_change_percent: s.u16(),
        total_da_rewards: s.u128(),
        latest_known_total_da_cost: s.u128(),
        projected_total_da_cost: s.u128(),
        da_p_component: s.u64() as i64,
        da_d_component: s.u64() as i64,
        last_profit: s.i128(),
        second_to_last_profit: s.i128(),
        latest_da_cost_per_byte: s.u128(),
        l2_activity: tracker,
        unrecorded_blocks_bytes: s.u128(),
    }
}

/// (1) an update for a height other than the next one is rejected and the
/// updater is left exactly as it was.
pub fn skipped_height<S: Src>(s: &mut S) {
    let mut u = any_updater::<S, 0>(s);
    let before = u.clone();
    let height = s.u32();
    let used = s.u64();
    let cap = s.u64();
    let bytes = s.u64();
    let fee = s.u128();
    vassume!(cap != 0);
    vassume!(height != u.l2_block_height.saturating_add(1));
    let mut blocks = Blocks { inserts: 0, removes: 0, answers: [(false, 0); 3] };
    let r = u.update_l2_block_data(height, used, NonZeroU64::new(cap).unwrap(), bytes, fee, &mut blocks);
    vassert!(matches!(r, Err(Error::SkippedL2Block { .. })), "C34 an update for a non-consecutive height is rejected");
    vassert!(u == before, "C34 a rejected update leaves the state unchanged");
    vassert!(blocks.inserts == 0 && blocks.removes == 0, "C34 a rejected update records nothing");
    vreach!();
    std::mem::forget(r);
}

fn exec_checks(before: &AlgorithmUpdaterV1, after: &AlgorithmUpdaterV1) {
    let old = before.new_scaled_exec_price;
    let new = after.new_scaled_exec_price;
    let floor = before.min_exec_gas_price.saturating_mul(before.gas_price_factor.get());
    // diff <= floor(min(old*pct, u64::MAX) / 100)  <=>  diff*100 <= min(old*pct, u64::MAX)
    let budget = ((old as u128) * (before.exec_gas_price_change_percent as u128)).min(u64::MAX as u128);
    vassert!(new >= floor, "C34 the execution gas price never falls below its minimum");
    if new != floor {
        let diff = if new > old { new - old } else { old - new };
        vassert!((diff as u128) * 100 <= budget, "C34 the execution price moves by at most the configured percentage");
    }
}

/// (2) execution price step. CAP = 0 leaves the block capacity symbolic.
pub fn exec_step<S: Src, const CAP: u64>(s: &mut S) {
    let mut u = any_updater::<S, 0>(s);
    let before = u.clone();
    let used = s.u64();
    let cap = if CAP == 0 { s.u64() } else { CAP };
    vassume!(cap != 0);
    u.verif_update_exec_gas_price(used, NonZeroU64::new(cap).unwrap());
    exec_checks(&before, &u);
    vassert!(u.new_scaled_da_gas_price == before.new_scaled_da_gas_price, "C34 the execution step leaves the DA price alone");
    vreach!();
    vreach!(u.new_scaled_exec_price > before.new_scaled_exec_price, "C34 exec price increase reachable");
}

fn da_checks(before: &AlgorithmUpdaterV1, after: &AlgorithmUpdaterV1) {
    let old = before.new_scaled_da_gas_price;
    let new = after.new_scaled_da_gas_price;
    let f = before.gas_price_factor.get();
    let lo = before.min_da_gas_price.saturating_mul(f);
    let hi = before.max_da_gas_price.max(before.min_da_gas_price).saturating_mul(f);
    let budget = ((old as u128) * (before.max_da_gas_price_change_percent as u128)).min(u64::MAX as u128);
    vassert!(new >= lo, "C34 the DA gas price never falls below its minimum");
    vassert!(new <= hi, "C34 the DA gas price never exceeds its maximum");
    if new != lo && new != hi {
        let diff = if new > old { new - old } else { old - new };
        vassert!((diff as u128) * 100 <= budget, "C34 the DA price moves by at most the configured percentage");
    }
}

/// (3) DA price step. Under Kani the P and D terms are cut (`p`, `d` return any
/// i128), so the bounds are shown for every value they could take.
pub fn da_step<S: Src, const FACTOR: u64>(s: &mut S) {
    let mut u = any_updater::<S, FACTOR>(s);
    let before = u.clone();
    u.verif_update_da_gas_price();
    da_checks(&before, &u);
    vassert!(u.new_scaled_exec_price == before.new_scaled_exec_price, "C34 the DA step leaves the execution price alone");
    vreach!();
    vreach!(u.new_scaled_da_gas_price > before.new_scaled_da_gas_price, "C34 DA price increase reachable");
    vreach!(u.new_scaled_da_gas_price < before.new_scaled_da_gas_price, "C34 DA price decrease reachable");
}

/// (3a) the clamped PD change itself: never larger than the per-block maximum.
pub fn da_change<S: Src, const FACTOR: u64>(s: &mut S) {
    let u = any_updater::<S, FACTOR>(s);
    let p = s.i128();
    let d = s.i128();
    let c = u.verif_da_change(p, d);
    let max_change = u.verif_max_change();
    vassert!(max_change >= 0, "C34 the per-block maximum change is not negative");
    vassert!(c <= max_change && c >= -max_change, "C34 the PD change is clamped to the configured percentage");
    let expect = u.new_scaled_da_gas_price.saturating_mul(u.max_da_gas_price_change_percent as u64) / 100;
    vassert!(max_change == expect as i128, "C34 the per-block maximum is price * percent / 100");
    vreach!();
}

/// (4) activity: the tracker stays within its range; the safety mode never
/// enlarges a change beyond the per-block maximum and Capped never raises.
pub fn activity<S: Src, const CAP: u64>(s: &mut S) {
    let mut u = any_updater::<S, 1>(s);
    let used = s.u64();
    let cap = if CAP == 0 { s.u64() } else { CAP };
    vassume!(cap != 0);
    let max_act = u.l2_activity.max_activity();
    vassume!(u.l2_activity.current_activity() <= max_act);
    u.verif_update_activity(used, NonZeroU64::new(cap).unwrap());
    vassert!(u.l2_activity.current_activity() <= max_act, "C34 chain activity stays within its range");
    let x = s.i128();
    let max_change = u.verif_max_change();
    let y = u.verif_da_change_accounting_for_activity(x);
    if x <= 0 {
        vassert!(y == x, "C34 a decrease is never altered by the activity mode");
    } else {
        vassert!(y == x || y == 0 || y == -max_change, "C34 the activity mode passes, holds or lowers the change");
    }
    vreach!();
}

/// (5) DA record update: empty range changes nothing; otherwise the DA price
/// obeys the same bounds. At most 2 recorded heights.
pub fn da_record<S: Src, const FACTOR: u64, const BYTES: u32>(s: &mut S) {
    let mut u = any_updater::<S, FACTOR>(s);
    let before = u.clone();
    let start = s.u32();
    let n = s.u8();
    let recorded_bytes = BYTES;
    let cost = s.u128();
    vassume!(n <= 2);
    let mut blocks = Blocks { inserts: 0, removes: 0, answers: [(s.bool(), s.u64()), (s.bool(), s.u64()), (false, 0)] };
    let r = if n == 0 {
        vassume!(start >= 1);
        u.update_da_record_data(start..=start - 1, recorded_bytes, cost, &mut blocks)
    } else {
        vassume!(start <= u32::MAX - 2);
        u.update_da_record_data(start..=start + (n as u32 - 1), recorded_bytes, cost, &mut blocks)
    };
    if n == 0 {
        vassert!(r.is_ok() && u == before, "C34 an empty DA record range changes nothing");
    } else if recorded_bytes == 0 {
        vassert!(matches!(r, Err(Error::CouldNotCalculateCostPerByte { .. })), "C34 zero recorded bytes is an error");
        vassert!(u.new_scaled_da_gas_price == before.new_scaled_da_gas_price, "C34 a failed DA record update leaves the DA price alone");
    } else {
        vassert!(r.is_ok(), "C34 a DA record update with bytes succeeds");
        da_checks(&before, &u);
        vassert!(blocks.removes == n as u32, "C34 exactly the recorded heights are removed from the unrecorded set");
    }
    vassert!(u.new_scaled_exec_price == before.new_scaled_exec_price, "C34 DA records never move the execution price");
    vassert!(u.l2_block_height == before.l2_block_height, "C34 DA records never move the L2 height");
    vreach!();
    std::mem::forget(r);
}

/// (6) the public L2 update as a whole (composition of the steps).
pub fn l2_update<S: Src, const FACTOR: u64, const CAP: u64>(s: &mut S) {
    let mut u = any_updater::<S, FACTOR>(s);
    let before = u.clone();
    let used = s.u64();
    let cap = if CAP == 0 { s.u64() } else { CAP };
    let bytes = s.u64();
    let fee = s.u128();
    vassume!(cap != 0);
    vassume!(before.l2_block_height < u32::MAX);
    let height = before.l2_block_height + 1;
    let mut blocks = Blocks { inserts: 0, removes: 0, answers: [(false, 0); 3] };
    let r = u.update_l2_block_data(height, used, NonZeroU64::new(cap).unwrap(), bytes, fee, &mut blocks);
    vassert!(r.is_ok(), "C34 the update for the next height is accepted");
    vassert!(u.l2_block_height == height, "C34 the accepted height is recorded");
    exec_checks(&before, &u);
    da_checks(&before, &u);
    vassert!(blocks.inserts == 1, "C34 the block is recorded as unrecorded exactly once");
    vreach!();
    std::mem::forget(r);
}

#[cfg(kani)]
pub fn any_i128(_u: &AlgorithmUpdaterV1) -> i128 {
    kani::any()
}
#[cfg(kani)]
pub fn any_u128(_u: &AlgorithmUpdaterV1, _fee: u128) -> u128 {
    kani::any()
}
/// Contract of `da_change` (the clamped PD term): any value within the
/// per-block maximum. The function itself multiplies two 128-bit values with
/// overflow detection, which CBMC cannot decide in reasonable time; what the
/// steps below show therefore holds for every da_change that keeps this contract.
#[cfg(kani)]
pub fn da_change_contract(u: &AlgorithmUpdaterV1, _p: i128, _d: i128) -> i128 {
    let m = u.verif_max_change();
    let x: i128 = kani::any();
    kani::assume(x <= m && x >= -m);
    x
}
/// Cut of the projected-cost bookkeeping (u128 x u128 products): the projected
/// cost becomes arbitrary; it only feeds the P/D terms, which are cut as well.
#[cfg(kani)]
pub fn havoc_projected_1(u: &mut AlgorithmUpdaterV1, _bytes: u64) {
    u.projected_total_da_cost = kani::any();
}
#[cfg(kani)]
pub fn havoc_projected_0(u: &mut AlgorithmUpdaterV1) {
    u.projected_total_da_cost = kani::any();
}

#[cfg(kani)]
mod proofs {
    use super::*;
    use crate::vsrc::KaniSrc;
    macro_rules! proof {
        ($name:ident, $unwind:expr, $body:expr) => {
            #[kani::proof]
            #[kani::stub(std::rt::thread_cleanup, crate::noop)]
            #[kani::unwind($unwind)]
            fn $name() {
                $body(&mut KaniSrc);
            }
        };
    }
    macro_rules! proof_cut {
        ($name:ident, $unwind:expr, $body:expr) => {
            #[kani::proof]
            #[kani::stub(std::rt::thread_cleanup, crate::noop)]
            #[kani::stub(fuel_gas_price_algorithm::v1::AlgorithmUpdaterV1::p, any_i128)]
            #[kani::stub(fuel_gas_price_algorithm::v1::AlgorithmUpdaterV1::d, any_i128)]
            #[kani::stub(fuel_gas_price_algorithm::v1::AlgorithmUpdaterV1::da_change, da_change_contract)]
            #[kani::stub(fuel_gas_price_algorithm::v1::AlgorithmUpdaterV1::da_portion_of_fee, any_u128)]
            #[kani::stub(fuel_gas_price_algorithm::v1::AlgorithmUpdaterV1::update_projected_da_cost, havoc_projected_1)]
            #[kani::stub(fuel_gas_price_algorithm::v1::AlgorithmUpdaterV1::recalculate_projected_cost, havoc_projected_0)]
            #[kani::unwind($unwind)]
            fn $name() {
                $body(&mut KaniSrc);
            }
        };
    }
    proof!(c34_skipped_height, 4, skipped_height);
    proof!(c34_exec_step_cap30m, 4, exec_step::<_, 30_000_000>);
    proof!(c34_exec_step_cap1, 4, exec_step::<_, 1>);
    proof!(c34_exec_step_anycap, 4, exec_step::<_, 0>);
    proof_cut!(c34_da_step_f1, 4, da_step::<_, 1>);
    proof_cut!(c34_da_step_f100, 4, da_step::<_, 100>);
    proof_cut!(c34_da_step_fany, 4, da_step::<_, 0>);
    proof!(c34_da_change_f1, 4, da_change::<_, 1>);
    proof!(c34_activity_cap30m, 4, activity::<_, 30_000_000>);
    proof!(c34_activity_anycap, 4, activity::<_, 0>);
    proof_cut!(c34_da_record_f1_b1000, 5, da_record::<_, 1, 1000>);
    proof_cut!(c34_da_record_f100_b0, 5, da_record::<_, 100, 0>);
    proof_cut!(c34_l2_update_f1, 4, l2_update::<_, 1, 30_000_000>);
    proof_cut!(c34_l2_update_f100, 4, l2_update::<_, 100, 30_000_000>);
}

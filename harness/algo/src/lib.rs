//! Harnesses for fuel-gas-price-algorithm: C35 (worst-case estimate) and C34 (price bounds).
#![allow(clippy::all)]

#[path = "../../common/vsrc.rs"]
#[macro_use]
pub mod vsrc;

pub mod c35;

#[cfg(not(kani))]
pub const REPLAY: &[(&str, fn(&mut vsrc::ReplaySrc))] = &[
    ("c35_total", |s| c35::total(s)),
    ("c35_worst_case_total", |s| c35::worst_case_total(s)),
    ("c35_table_monotone_k16", |s| c35::table_monotone::<_, 16>(s)),
    ("c35_table_monotone_k20", |s| c35::table_monotone::<_, 20>(s)),
    ("c35_table_monotone_k28", |s| c35::table_monotone::<_, 28>(s)),
    ("c35_table_rows", |s| c35::table_rows(s)),
    ("c35_lower_k12_p1_b1", |s| c35::lower_bound::<_, 12, 1, 1>(s)),
    ("c35_lower_k12_p13_b2", |s| c35::lower_bound::<_, 12, 13, 2>(s)),
    ("c35_lower_k12_p24_b8", |s| c35::lower_bound::<_, 12, 24, 8>(s)),
    ("c35_lower_k12_p7_b24", |s| c35::lower_bound::<_, 12, 7, 24>(s)),
    ("c35_lower_k16_p13_b2", |s| c35::lower_bound::<_, 16, 13, 2>(s)),
    ("c35_lower_k16_p24_b4", |s| c35::lower_bound::<_, 16, 24, 4>(s)),
    ("c35_lower_k16_p3_b12", |s| c35::lower_bound::<_, 16, 3, 12>(s)),
    ("c35_lower_k14_p24_b24", |s| c35::lower_bound::<_, 14, 24, 24>(s)),
    ("c35_lower_above_2p52", |s| c35::lower_bound_above_2p52(s)),
];

pub fn noop() {}

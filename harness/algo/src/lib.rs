//! Harnesses for fuel-gas-price-algorithm: C35 (worst-case estimate) and C34 (price bounds).
#![allow(clippy::all)]

#[path = "../../common/vsrc.rs"]
#[macro_use]
pub mod vsrc;

pub mod c34;
pub mod c35;

#[cfg(not(kani))]
pub const REPLAY: &[(&str, fn(&mut vsrc::ReplaySrc))] = &[
    ("c34_skipped_height", |s| c34::skipped_height(s)),
    ("c34_exec_step_cap30m", |s| c34::exec_step::<_, 30_000_000>(s)),
    ("c34_exec_step_cap1", |s| c34::exec_step::<_, 1>(s)),
    ("c34_exec_step_anycap", |s| c34::exec_step::<_, 0>(s)),
    ("c34_da_step_f1", |s| c34::da_step::<_, 1>(s)),
    ("c34_da_step_f100", |s| c34::da_step::<_, 100>(s)),
    ("c34_da_step_fany", |s| c34::da_step::<_, 0>(s)),
    ("c34_da_change_f1", |s| c34::da_change::<_, 1>(s)),
    ("c34_activity_cap30m", |s| c34::activity::<_, 30_000_000>(s)),
    ("c34_activity_anycap", |s| c34::activity::<_, 0>(s)),
    ("c34_da_record_f1_b1000", |s| c34::da_record::<_, 1, 1000>(s)),
    ("c34_da_record_f100_b0", |s| c34::da_record::<_, 100, 0>(s)),
    ("c34_l2_update_f1", |s| c34::l2_update::<_, 1, 30_000_000>(s)),
    ("c34_l2_update_f100", |s| c34::l2_update::<_, 100, 30_000_000>(s)),
    ("c35_total", |s| c35::total(s)),
    ("c35_worst_case_total", |s| c35::worst_case_total(s)),
    ("c35_worst_case_components_fixed", |s| c35::worst_case_components::<_, 0>(s)),
    ("c35_worst_case_components_fixed2", |s| c35::worst_case_components::<_, 1>(s)),
    ("c35_table_monotone_k16", |s| c35::table_monotone::<_, 16>(s)),
    ("c35_table_monotone_k20", |s| c35::table_monotone::<_, 20>(s)),
    ("c35_table_monotone_k28", |s| c35::table_monotone::<_, 28>(s)),
    ("c35_table_rows", |s| c35::table_rows(s)),
    ("c35_lower_k12_p1_b1", |s| c35::lower_bound::<_, 12, 1, 1>(s)),
    ("c35_lower_k12_p13_b2", |s| c35::lower_bound::<_, 12, 13, 2>(s)),
    ("c35_lower_k12_p24_b8", |s| c35::lower_bound::<_, 12, 24, 8>(s)),
    ("c35_lower_k12_p7_b24", |s| c35::lower_bound::<_, 12, 7, 24>(s)),
    ("c35_lower_k16_p13_b2", |s| c35::lower_bound::<_, 16, 13, 2>(s)),
    ("c35_lower_k16_p24_b4", |s| c35::lower_bound::<_, 16, 24, 4>(s)),
    ("c35_lower_k16_p3_b12", |s| c35::lower_bound::<_, 16, 3, 12>(s)),
    ("c35_lower_k14_p24_b24", |s| c35::lower_bound::<_, 14, 24, 24>(s)),
    ("c35_lower_above_2p52", |s| c35::lower_bound_above_2p52(s)),
];

pub fn noop() {}

//! C30 — the producer advances the DA height to the largest fitting prefix.
//!
//! Code under test: the real private `Producer::select_new_da_height`
//! (through the feature-gated forwarder), polled to completion with a no-op
//! waker (every awaited future of the mock relayer is immediately ready).
use crate::vsrc::Src;
use fuel_core_producer::{
    block_producer::gas_price::ChainStateInfoProvider,
    ports::{BlockProducerDatabase, Relayer, RelayerBlockInfo},
    Config, Producer,
};
use fuel_core_storage::{not_found, transactional::AtomicView, Result as StorageResult};
use fuel_core_types::{
    blockchain::{
        block::{Block, CompressedBlock},
        header::{ConsensusParametersVersion, StateTransitionBytecodeVersion},
        primitives::DaBlockHeight,
    },
    fuel_tx::{Bytes32, ConsensusParameters},
    fuel_types::BlockHeight,
};
use std::{borrow::Cow, sync::Arc};

pub const MAXN: usize = 6;

/// Relayer mock: the finalized height (or a failure) and, for the DA heights
/// prev+1 .. prev+N, cost, transaction count and whether the lookup fails.
pub struct MockRelayer {
    pub prev: u64,
    pub finalized: Option<u64>,
    pub info: [(u64, u64, bool); MAXN],
}

#[async_trait::async_trait]
impl Relayer for MockRelayer {
    async fn wait_for_at_least_height(&self, _h: &DaBlockHeight) -> anyhow::Result<DaBlockHeight> {
        match self.finalized {
            Some(h) => Ok(DaBlockHeight(h)),
            None => Err(anyhow::anyhow!("relayer failed")),
        }
    }
    async fn get_cost_and_transactions_number_for_block(
        &self,
        height: &DaBlockHeight,
    ) -> anyhow::Result<RelayerBlockInfo> {
        let k = height.0.wrapping_sub(self.prev).wrapping_sub(1);
        if k >= MAXN as u64 {
            // never asked for a height outside (prev, finalized]
            panic!("C30 relayer asked for a DA height outside (previous, finalized]");
        }
        let (gas_cost, tx_count, fails) = self.info[k as usize];
        if fails {
            Err(anyhow::anyhow!("relayer lookup failed"))
        } else {
            Ok(RelayerBlockInfo { gas_cost, tx_count })
        }
    }
}

pub struct NoView;
pub struct NoDb;
impl AtomicView for NoView {
    type LatestView = NoDb;
    fn latest_view(&self) -> StorageResult<NoDb> {
        Ok(NoDb)
    }
}
impl BlockProducerDatabase for NoDb {
    fn latest_height(&self) -> Option<BlockHeight> {
        None
    }
    fn get_block(&self, _h: &BlockHeight) -> StorageResult<Cow<'_, CompressedBlock>> {
        Err(not_found!("block"))
    }
    fn get_full_block(&self, _h: &BlockHeight) -> StorageResult<Block> {
        Err(not_found!("block"))
    }
    fn block_header_merkle_root(&self, _h: &BlockHeight) -> StorageResult<Bytes32> {
        Err(not_found!("root"))
    }
    fn latest_consensus_parameters_version(&self) -> StorageResult<ConsensusParametersVersion> {
        Ok(0)
    }
    fn latest_state_transition_bytecode_version(&self) -> StorageResult<StateTransitionBytecodeVersion> {
        Ok(0)
    }
}
pub struct NoChain;
impl ChainStateInfoProvider for NoChain {
    fn consensus_params_at_version(&self, _v: &ConsensusParametersVersion) -> anyhow::Result<Arc<ConsensusParameters>> {
        Err(anyhow::anyhow!("unused"))
    }
}

fn block_on<F: std::future::Future>(f: F) -> F::Output {
    use futures::task::noop_waker_ref;
    use std::task::{Context, Poll};
    let mut f = Box::pin(f);
    let mut cx = Context::from_waker(noop_waker_ref());
    let out = match f.as_mut().poll(&mut cx) {
        Poll::Ready(x) => x,
        Poll::Pending => panic!("future not ready"),
    };
    // the completed state machine holds nothing; skipping its drop glue spares
    // CBMC the (dead) destructors of every value that was ever live in it
    std::mem::forget(f);
    out
}

/// N = number of DA blocks that may lie ahead of the parent's DA height.
pub fn select<S: Src, const N: usize>(s: &mut S) {
    let prev = s.u64();
    let fin_ok = s.bool();
    let fin = s.u64();
    let gas_limit = s.u64();
    let tx_limit = s.u16();
    vassume!(prev <= u64::MAX - (N as u64) - 1);
    if fin_ok {
        vassume!(fin <= prev + N as u64);
    }
    let mut info = [(0u64, 0u64, false); MAXN];
    let mut i = 0;
    while i < N {
        info[i] = (s.u64(), s.u64(), s.bool());
        i += 1;
    }
    let producer = Producer {
        config: Config::default(),
        view_provider: NoView,
        txpool: (),
        executor: Arc::new(()),
        relayer: Box::new(MockRelayer { prev, finalized: if fin_ok { Some(fin) } else { None }, info }),
        lock: tokio::sync::Mutex::new(()),
        gas_price_provider: (),
        chain_state_info_provider: NoChain,
    };
    let res = block_on(producer.verif_select_new_da_height(gas_limit, DaBlockHeight(prev), tx_limit));

    // ---- oracle, from the statement
    if !fin_ok {
        vassert!(res.is_err(), "C30 a relayer failure fails production");
    } else if fin < prev {
        vassert!(res.is_err(), "C30 a finalized height below the parent's DA height fails production");
    } else if fin == prev {
        vassert!(matches!(res, Ok(DaBlockHeight(h)) if h == prev), "C30 nothing new finalized: the DA height stays");
    } else {
        let ahead = (fin - prev) as usize; // 1..=N
        // largest k <= ahead such that the blocks prev+1..=prev+k fit; a failed
        // lookup among the blocks that have to be examined is an error
        let mut cost: u64 = 0;
        let mut txs: u64 = 0;
        let mut best = 0usize;
        let mut failed = false;
        let mut stop = false;
        let mut k = 0;
        while k < N {
            if k < ahead && !stop && !failed {
                let (c, t, f) = info[k];
                if f {
                    failed = true;
                } else {
                    cost = cost.saturating_add(c);
                    txs = txs.saturating_add(t);
                    if cost > gas_limit || txs > tx_limit as u64 {
                        stop = true;
                    } else {
                        best = k + 1;
                    }
                }
            }
            k += 1;
        }
        if failed {
            vassert!(res.is_err(), "C30 a failed cost lookup fails production");
        } else if best == 0 {
            vassert!(res.is_err(), "C30 production fails rather than exceed the limits");
        } else {
            match &res {
                Ok(DaBlockHeight(h)) => {
                    vassert!(*h == prev + best as u64, "C30 the new DA height is the largest fitting prefix");
                    vassert!(*h >= prev && *h <= fin, "C30 the DA height never decreases or passes the finalized height");
                }
                Err(_) => vassert!(false, "C30 a fitting prefix exists but production failed"),
            }
        }
    }
    if let Ok(DaBlockHeight(h)) = &res {
        vassert!(*h >= prev, "C30 the DA height never decreases");
        vassert!(fin_ok && *h <= fin, "C30 the DA height never passes the finalized height");
    }
    vreach!();
    vreach!(matches!(res, Ok(DaBlockHeight(h)) if h == prev + N as u64), "C30 advancing over all N blocks reachable");
    std::mem::forget(res);
    std::mem::forget(producer);
}

#[cfg(kani)]
mod proofs {
    use super::*;
    use crate::vsrc::KaniSrc;
    macro_rules! proof {
        ($name:ident, $n:expr, $unwind:expr) => {
            #[kani::proof]
            #[kani::stub(std::rt::thread_cleanup, crate::noop)]
            #[kani::stub(std::backtrace::Backtrace::capture, crate::bt_disabled)]
            #[kani::stub(std::fmt::format, crate::fmt_stub)]
            #[kani::unwind($unwind)]
            fn $name() {
                select::<_, $n>(&mut KaniSrc);
            }
        };
    }
    proof!(c30_select_n2, 2, 8);
    proof!(c30_select_n4, 4, 8);
    proof!(c30_select_n6, 6, 8);
}

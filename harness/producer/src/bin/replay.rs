#[cfg(not(kani))]
fn main() {
    vh_producer::vsrc::replay_main(vh_producer::REPLAY);
}
#[cfg(kani)]
fn main() {}

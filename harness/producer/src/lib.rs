//! Harnesses for fuel-core-producer: C30 (DA height = largest fitting prefix).
#![allow(clippy::all)]

#[path = "../../common/vsrc.rs"]
#[macro_use]
pub mod vsrc;

pub mod c30;

#[cfg(not(kani))]
pub const REPLAY: &[(&str, fn(&mut vsrc::ReplaySrc))] = &[
    ("c30_select_n2", |s| c30::select::<_, 2>(s)),
    ("c30_select_n4", |s| c30::select::<_, 4>(s)),
    ("c30_select_n6", |s| c30::select::<_, 6>(s)),
];

pub fn noop() {}

/// Stub target for `std::backtrace::Backtrace::capture` (called by every
/// `anyhow::Error` construction): no backtrace. The real one reads an
/// environment variable and walks the stack through FFI; its drop glue alone
/// cost CBMC > 30 GB.
pub fn bt_disabled() -> std::backtrace::Backtrace {
    std::backtrace::Backtrace::disabled()
}

/// Stub target for `alloc::fmt::format` (error messages): formatting is never
/// the subject of a property here.
pub fn fmt_stub(_args: std::fmt::Arguments<'_>) -> String {
    String::new()
}

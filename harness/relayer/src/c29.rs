//! C29 — the relayer records every DA block's events exactly once: pager kernel.
//!
//! Code under test (real, through the feature-gated wrappers): `EthSyncGap::page`,
//! `EthSyncPage::{advance_and_resize, oldest, latest, is_empty}` and
//! `AdaptivePageSizer::{update, page_size}`.
//! The three-line driver of `download_logs` (take a page, on success update the
//! sizer and `advance_and_resize(page_size())`, on an RPC error update the sizer
//! and stop) is restated in `pager`, because the real one is a stream over an
//! `alloy` RPC provider.
use crate::vsrc::Src;
use fuel_core_relayer::verif_hooks::{Gap, Page, Sizer};

/// DA heights are far below 2^63 (an Ethereum block number); at u64::MAX the
/// saturating arithmetic of the pager repeats the last page — stated as outside
/// the claim.
pub const HEIGHT_MAX: u64 = 1 << 63;

/// Sizer step from ANY sizer state reachable through `new` + updates:
/// the size stays >= 1 once it is >= 1, never exceeds max(max, initial), a
/// failure halves it (floor, min 1), growth happens only at the threshold.
pub fn sizer_step<S: Src, const BITS: u32>(s: &mut S) {
    let current = s.u64();
    let max = s.u64();
    let grow = s.u64();
    let max_logs = s.u64();
    vassume!(current >= 1);
    if BITS < 64 {
        vassume!(current < (1u64 << (BITS % 64)));
    }
    let mut sz = Sizer::new(current, max, grow, max_logs);
    // bring the success counter to an arbitrary value below the threshold by a
    // bounded number of successes (the counter is private)
    let pre = s.u8();
    vassume!(pre <= 2);
    let mut i = 0;
    while i < 2 {
        if i < pre {
            sz.update_success(0);
        }
        i += 1;
    }
    let before = sz.page_size();
    vassert!(before >= 1, "C29 the page size stays at least one block");
    let outcome_err = s.bool();
    let logs = s.u64();
    if outcome_err {
        sz.update_error();
    } else {
        sz.update_success(logs);
    }
    let after = sz.page_size();
    vassert!(after >= 1, "C29 the page size stays at least one block");
    if outcome_err || logs > max_logs {
        vassert!(after == (before / 2).max(1), "C29 a failed or oversized call halves the page size");
    } else {
        vassert!(after >= before, "C29 a successful call never shrinks the page size");
        vassert!(after <= before.max(max), "C29 growth never exceeds the configured maximum");
        if after > before {
            vassert!(after <= before.saturating_add(before / 4).saturating_add(1), "C29 growth is at most 25 percent (or one block)");
        }
    }
    vreach!();
    vreach!(after > before, "C29 growth reachable");
}

/// First page of any gap: starts at the oldest height, holds 1..=size heights,
/// never passes the gap; None exactly when the gap is empty or the size is 0.
pub fn first_page<S: Src>(s: &mut S) {
    let oldest = s.u64();
    let latest = s.u64();
    let size = s.u64();
    vassume!(latest < HEIGHT_MAX);
    let gap = Gap::new(oldest, latest);
    match gap.page(size) {
        None => vassert!(oldest > latest || size == 0, "C29 a non-empty gap yields a first page"),
        Some(p) => {
            vassert!(oldest <= latest && size >= 1, "C29 an empty gap yields no page");
            vassert!(p.oldest() == oldest, "C29 the first page starts at the oldest missing height");
            vassert!(p.latest() >= p.oldest(), "C29 a page is never empty");
            vassert!(p.latest() <= latest, "C29 a page never passes the end of the gap");
            vassert!(p.latest() - p.oldest() < size, "C29 a page holds at most page-size heights");
            vassert!(p.latest() == latest || p.latest() - p.oldest() == size - 1, "C29 a page is cut short only by the end of the gap");
        }
    }
    vreach!();
}

/// Inductive step of the pager: from ANY page satisfying the representation
/// invariant (latest == oldest+size-1, or latest == end of the gap and shorter),
/// `advance_and_resize(n)` yields the page that starts right after it.
/// The arbitrary valid page is built through the real API: `Gap::new(a, end).page(size)`
/// reaches every valid page that starts at `a`.
pub fn page_step<S: Src>(s: &mut S) {
    let a = s.u64();
    let end = s.u64();
    let size = s.u64();
    let n = s.u64();
    vassume!(end < HEIGHT_MAX);
    vassume!(a <= end && size >= 1);
    let page = Gap::new(a, end).page(size).unwrap();
    let last = page.latest();
    match page.advance_and_resize(n) {
        None => vassert!(last == end || n == 0, "C29 paging stops only at the end of the gap"),
        Some(p) => {
            vassert!(last < end && n >= 1, "C29 no page follows the end of the gap");
            vassert!(p.oldest() == last + 1, "C29 the next page starts right after the previous one (no gap, no overlap)");
            vassert!(p.latest() >= p.oldest(), "C29 a page is never empty");
            vassert!(p.latest() <= end, "C29 a page never passes the end of the gap");
            vassert!(p.latest() - p.oldest() < n, "C29 a page holds at most page-size heights");
            vassert!(p.latest() == end || p.latest() - p.oldest() == n - 1, "C29 a page is cut short only by the end of the gap");
        }
    }
    vreach!();
}

/// k pages in a row with the sizer in the loop and arbitrary RPC outcomes:
/// the heights written are exactly oldest..=synced, each once, in order.
pub fn pager<S: Src, const K: usize>(s: &mut S) {
    let oldest = s.u64();
    let latest = s.u64();
    let initial = s.u64();
    let max = s.u64();
    let grow = s.u64();
    let max_logs = s.u64();
    vassume!(latest < HEIGHT_MAX);
    vassume!(oldest <= latest);
    vassume!(initial >= 1);
    let mut sizer = Sizer::new(initial, max, grow, max_logs);
    let gap = Gap::new(oldest, latest);
    let mut page: Option<Page> = gap.page(sizer.page_size());
    let mut next_expected = oldest; // first height not yet written
    let mut i = 0;
    while i < K {
        let rpc_fails = s.bool();
        let logs = s.u64();
        match page.take() {
            None => {
                vassert!(next_expected == latest + 1, "C29 paging ends only after the whole gap was written");
            }
            Some(p) => {
                let size_in_force = sizer.page_size();
                vassert!(p.oldest() == next_expected, "C29 no height is skipped or written twice");
                vassert!(p.latest() >= p.oldest() && p.latest() <= latest, "C29 a page stays inside the gap");
                vassert!(p.latest() - p.oldest() < size_in_force, "C29 a page holds at most the page size in force");
                if rpc_fails {
                    // download_logs: the stream ends with an error; nothing of this page is written
                    sizer.update_error();
                    page = None;
                    vreach!(true, "C29 failure path reachable");
                    break;
                } else {
                    // write_logs stores start_height..=last_height
                    next_expected = p.latest() + 1;
                    sizer.update_success(logs);
                    page = p.advance_and_resize(sizer.page_size());
                }
            }
        }
        vassert!(sizer.page_size() >= 1, "C29 the page size stays at least one block");
        i += 1;
    }
    vassert!(next_expected >= oldest && next_expected <= latest + 1, "C29 the synced height never decreases or passes the DA head");
    vreach!();
}

#[cfg(kani)]
mod proofs {
    use super::*;
    use crate::vsrc::KaniSrc;
    macro_rules! proof {
        ($name:ident, $unwind:expr, $body:expr) => {
            #[kani::proof]
            #[kani::stub(std::rt::thread_cleanup, crate::noop)]
            #[kani::unwind($unwind)]
            fn $name() {
                $body(&mut KaniSrc);
            }
        };
    }
    proof!(c29_sizer_step_b24, 4, sizer_step::<_, 24>);
    proof!(c29_sizer_step_b64, 4, sizer_step::<_, 64>);
    proof!(c29_first_page, 2, first_page);
    proof!(c29_page_step, 2, page_step);
    proof!(c29_pager_k4, 6, pager::<_, 4>);
    proof!(c29_pager_k6, 8, pager::<_, 6>);
}

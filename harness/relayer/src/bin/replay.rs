#[cfg(not(kani))]
fn main() {
    vh_relayer::vsrc::replay_main(vh_relayer::REPLAY);
}
#[cfg(kani)]
fn main() {}

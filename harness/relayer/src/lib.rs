//! Harnesses for fuel-core-relayer: C29 (every DA block recorded exactly once) — pager kernel.
#![allow(clippy::all)]

#[path = "../../common/vsrc.rs"]
#[macro_use]
pub mod vsrc;

pub mod c29;

#[cfg(not(kani))]
pub const REPLAY: &[(&str, fn(&mut vsrc::ReplaySrc))] = &[
    ("c29_sizer_step_b24", |s| c29::sizer_step::<_, 24>(s)),
    ("c29_sizer_step_b64", |s| c29::sizer_step::<_, 64>(s)),
    ("c29_first_page", |s| c29::first_page(s)),
    ("c29_page_step", |s| c29::page_step(s)),
    ("c29_pager_k4", |s| c29::pager::<_, 4>(s)),
    ("c29_pager_k6", |s| c29::pager::<_, 6>(s)),
];

pub fn noop() {}
